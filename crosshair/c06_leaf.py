"""O6.1 — leaf values survive the base-type / numpy-type conversion (CrossHair)."""
from AutoCarver.discretizers.utils.serialization import convert_value_to_base_type, convert_value_to_numpy_type


def _leaf_roundtrip_str(s: str) -> bool:
    """
    pre: len(s) <= 10
    post: _
    """
    return convert_value_to_numpy_type(convert_value_to_base_type(s)) == s


def _reach_str(s: str) -> bool:
    """
    pre: len(s) <= 10
    post: not _
    """
    return convert_value_to_numpy_type(convert_value_to_base_type(s)) == s


def _leaf_roundtrip_str_excluding_sentinel(s: str) -> bool:
    """
    pre: len(s) <= 10
    pre: s != "numpy.inf"
    post: _
    """
    return convert_value_to_numpy_type(convert_value_to_base_type(s)) == s
