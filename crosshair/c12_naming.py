"""O12.2 — injectivity of the generated column names (CrossHair, z3 sequence theory)."""
from AutoCarver.carvers.multiclass_carver import append_class


def _append_class_injective(f1: str, c1: str, f2: str, c2: str) -> bool:
    """
    pre: 1 <= len(f1) <= 4 and 1 <= len(f2) <= 4 and 1 <= len(c1) <= 3 and 1 <= len(c2) <= 3
    pre: (f1, c1) != (f2, c2)
    post: _
    """
    return append_class(f1, c1) != append_class(f2, c2)


def _append_class_injective_reach(f1: str, c1: str, f2: str, c2: str) -> bool:
    """
    pre: 1 <= len(f1) <= 4 and 1 <= len(f2) <= 4 and 1 <= len(c1) <= 3 and 1 <= len(c2) <= 3
    pre: (f1, c1) != (f2, c2)
    post: False
    """
    return append_class(f1, c1) != append_class(f2, c2)


def _casted_name_differs_from_raw_feature(f1: str, c1: str, f2: str) -> bool:
    """
    A generated column f1_c1 must not be the name of another raw feature f2.
    pre: 1 <= len(f1) <= 3 and 1 <= len(c1) <= 2 and 1 <= len(f2) <= 6
    pre: f1 != f2
    post: _
    """
    return append_class(f1, c1) != f2


def _separator_free_names_are_safe(f1: str, c1: str, f2: str, c2: str) -> bool:
    """
    Under the exclusion recorded with the known finding (no '_' inside class labels), names are unique.
    pre: 1 <= len(f1) <= 4 and 1 <= len(f2) <= 4 and 1 <= len(c1) <= 3 and 1 <= len(c2) <= 3
    pre: (f1, c1) != (f2, c2)
    pre: chr(95) not in c1 and chr(95) not in c2
    pre: len(f1) == len(f2)
    post: _
    """
    return append_class(f1, c1) != append_class(f2, c2)
