"""O19.2 — unsupported sort_by strings are refused with AssertionError (CrossHair)."""
from AutoCarver import BinaryCarver, ContinuousCarver, MulticlassCarver


def _outcome(cls, s: str) -> str:
    try:
        cls(sort_by=s, min_freq=0.1, quantitative_features=["f"])
        return "accepted"
    except AssertionError:
        return "AssertionError"
    except Exception as e:  # noqa
        return type(e).__name__


def _binary_refuses_unknown_sort_by(s: str) -> str:
    """
    pre: len(s) <= 12
    pre: s != "tschuprowt" and s != "cramerv"
    post: _ == "AssertionError"
    """
    return _outcome(BinaryCarver, s)


def _multiclass_refuses_unknown_sort_by(s: str) -> str:
    """
    pre: len(s) <= 12
    pre: s != "tschuprowt" and s != "cramerv"
    post: _ == "AssertionError"
    """
    return _outcome(MulticlassCarver, s)


def _continuous_refuses_unknown_sort_by(s: str) -> str:
    """
    pre: len(s) <= 12
    pre: s != "kruskal"
    post: _ == "AssertionError"
    """
    return _outcome(ContinuousCarver, s)


def _reach_binary(s: str) -> str:
    """
    pre: len(s) <= 12
    pre: s != "tschuprowt" and s != "cramerv"
    post: _ == "never"
    """
    return _outcome(BinaryCarver, s)
