import numpy as np, pandas as pd, warnings, traceback, json
warnings.filterwarnings("ignore")
from AutoCarver import BinaryCarver, load_carver
from AutoCarver.discretizers import Discretizer
from AutoCarver.selectors import RegressionSelector

def tryit(name, f):
    try:
        r = f(); print("OK ", name, "->", r)
    except AssertionError as e:
        print("ASSERT", name, str(e)[:100])
    except BaseException as e:
        print("ERR", name, type(e).__name__, str(e)[:150])

# (a) adjacency of equal rates in natural order not detected because grouped xtab is label-sorted
def a():
    # ordinal feature with natural order C < A < B (alphabetical differs)
    rows = []
    # groups: C: rate .5 (n=20), A: rate .5 (n=20), B: rate .1 (n=20)
    for lab, n, p in [("C", 20, 10), ("A", 20, 10), ("B", 20, 2)]:
        rows += [(lab, 1)] * p + [(lab, 0)] * (n - p)
    X = pd.DataFrame({"f": [r[0] for r in rows]}); y = pd.Series([r[1] for r in rows])
    c = BinaryCarver(min_freq=0.1, sort_by="cramerv", ordinal_features=["f"], values_orders={"f": ["C", "A", "B"]}, max_n_mod=3, copy=True, output_dtype="str")
    out = c.fit_transform(X, y)
    return c.features, c.values_orders["f"].content, c.history("f")[["combination", "cramerv", "viability", "viability_message"]].to_dict("records")[:4]
tryit("a-adjacency", a)

# (b) update_discretizer with strings
def b():
    rows = []
    for lab, n, p in [("A", 20, 2), ("B", 20, 8), ("C", 20, 15)]:
        rows += [(lab, 1)] * p + [(lab, 0)] * (n - p)
    X = pd.DataFrame({"f": [r[0] for r in rows]}); y = pd.Series([r[1] for r in rows])
    c = BinaryCarver(min_freq=0.1, sort_by="cramerv", qualitative_features=["f"], max_n_mod=3, copy=True, output_dtype="str")
    c.fit(X, y)
    before = c.values_orders["f"].content
    c.update_discretizer("f", "group", "A", "B")
    return before, c.values_orders["f"].content
tryit("b-update-str", b)

# (c) label collision beyond 4 significant digits
def cfn():
    vals = [202301.0 + i for i in range(12)]
    X = pd.DataFrame({"f": vals * 10}); y = pd.Series(([0] * 6 + [1] * 6) * 10)
    c = BinaryCarver(min_freq=0.2, sort_by="cramerv", quantitative_features=["f"], max_n_mod=4, copy=True, output_dtype="str")
    out = c.fit_transform(X, y)
    return c.features, list(c.values_orders["f"]), c.values_orders["f"].content, out["f"].value_counts().to_dict()
tryit("c-label-collision", cfn)

# (d) refit guard
def d():
    rows = []
    for lab, n, p in [("A", 20, 2), ("B", 20, 8), ("C", 20, 15), ("D", 20, 18)]:
        rows += [(lab, 1)] * p + [(lab, 0)] * (n - p)
    X = pd.DataFrame({"f": [r[0] for r in rows]}); y = pd.Series([r[1] for r in rows])
    c = BinaryCarver(min_freq=0.1, sort_by="cramerv", qualitative_features=["f"], max_n_mod=2, copy=True, output_dtype="str")
    c.fit(X, y)
    j1 = json.dumps(c.to_json()); t1 = c.transform(X)["f"].tolist()
    try:
        c.fit(X, y)
        print("   refit accepted!?")
    except AssertionError as e:
        print("   refit rejected:", str(e)[:60])
    except BaseException as e:
        print("   refit other error", type(e).__name__, str(e)[:100])
    j2 = json.dumps(c.to_json())
    try:
        t2 = c.transform(X)["f"].tolist()
    except BaseException as e:
        t2 = ("ERR", type(e).__name__, str(e)[:80])
    return "json same" if j1 == j2 else "JSON CHANGED", "transform same" if t1 == t2 else ("TRANSFORM CHANGED", t2 if isinstance(t2, tuple) else "")
tryit("d-refit", d)

# (e) RegressionSelector negation / exact copy
def e():
    rng = np.random.default_rng(0)
    n = 200
    yv = rng.normal(size=n)
    X = pd.DataFrame({"copy": yv.copy(), "pos": yv + rng.normal(size=n) * 0.5, "neg": -(yv + rng.normal(size=n) * 0.3), "noise": rng.normal(size=n)})
    y = pd.Series(yv)
    s1 = RegressionSelector(n_best=2, quantitative_features=list(X.columns)).select(X, y)
    X2 = X.copy(); X2["pos"] = -X2["pos"]; X2["neg"] = -X2["neg"]
    s2 = RegressionSelector(n_best=2, quantitative_features=list(X.columns)).select(X2, y)
    return s1, s2
tryit("e-regression-selector", e)

# (f) category named numpy.inf
def f():
    rows = []
    for lab, n, p in [("numpy.inf", 20, 2), ("B", 20, 8), ("C", 20, 15)]:
        rows += [(lab, 1)] * p + [(lab, 0)] * (n - p)
    X = pd.DataFrame({"f": [r[0] for r in rows]}); y = pd.Series([r[1] for r in rows])
    c = BinaryCarver(min_freq=0.1, sort_by="cramerv", qualitative_features=["f"], max_n_mod=3, copy=True, output_dtype="str")
    c.fit(X, y)
    c2 = load_carver(json.loads(json.dumps(c.to_json())))
    return c.transform(X)["f"].tolist() == c2.transform(X)["f"].tolist()
tryit("f-numpy.inf-category", f)
