import numpy as np, pandas as pd, warnings, traceback, json
warnings.filterwarnings("ignore")
from AutoCarver.discretizers import ContinuousDiscretizer, QuantitativeDiscretizer, Discretizer
from AutoCarver import BinaryCarver
from AutoCarver.discretizers.utils.quantitative_discretizers import find_quantiles

def tryit(name, f):
    try:
        r = f(); print("OK ", name, "->", r)
    except AssertionError as e:
        print("ASSERT", name, str(e)[:100])
    except BaseException as e:
        print("ERR", name, type(e).__name__, str(e)[:150]); traceback.print_exc(limit=-3)

def data():
    X = pd.DataFrame({"f": [float(i) for i in range(8)]})
    y = pd.Series([0, 1, 0, 0, 1, 1, 0, 1])
    return X, y
X, y = data()
print(find_quantiles(X["f"].values, 7))
def cd():
    X, y = data()
    d = ContinuousDiscretizer(["f"], min_freq=0.15, copy=True); d.fit(X, y)
    return list(d.values_orders["f"]), d.values_orders["f"].content, d.labels_per_values, d.transform(X)["f"].value_counts().to_dict()
tryit("ContinuousDiscretizer", cd)
def qdz():
    X, y = data()
    d = QuantitativeDiscretizer(["f"], min_freq=0.15, copy=True); d.fit(X, y)
    return list(d.values_orders["f"]), d.values_orders["f"].content, d.transform(X)["f"].value_counts().to_dict()
tryit("QuantitativeDiscretizer", qdz)
def carv():
    X, y = data()
    c = BinaryCarver(min_freq=0.15, sort_by="tschuprowt", quantitative_features=["f"], max_n_mod=3, copy=True); 
    out = c.fit_transform(X, y)
    return c.features, list(c.values_orders.get("f", [])), out["f"].value_counts().to_dict()
tryit("BinaryCarver", carv)
