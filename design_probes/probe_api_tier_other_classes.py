import sys, time, z3, warnings, traceback, copy
sys.path.insert(0, "/verif/design_probes")
warnings.filterwarnings("ignore")
from symx_prototype import *
import numpy as np, pandas as pd
import AutoCarver.discretizers.utils.quantitative_discretizers as qd
import AutoCarver.discretizers.utils.base_discretizers as bd
import AutoCarver.discretizers.utils.type_discretizers as td
from AutoCarver import BinaryCarver, ContinuousCarver, MulticlassCarver
from AutoCarver.discretizers import Discretizer
SNum.__array_ufunc__ = None
def sym_isnan(a):
    if isinstance(a, np.ndarray): return np.array([False if isinstance(v, Sym) else bool(np.isnan(v)) for v in a], dtype=bool)
    if isinstance(a, Sym): return False
    return np.isnan(a)
qd.isnan = sym_isnan
qd.digitize = lambda x, bins, right=False: np.searchsorted(bins, x, side="left" if right else "right")
_isfinite = bd.isfinite
bd.isfinite = lambda v: True if isinstance(v, Sym) else _isfinite(v)
SNum.__format__ = lambda self, spec: "<" + str(self.e) + ">"

class FakeAsync:
    def __init__(self, v): self.v = v
    def get(self): return self.v
class FakePool:
    def __init__(self, processes=None): pass
    def __enter__(self): return self
    def __exit__(self, *a): return False
    def apply_async(self, f, args): return FakeAsync(f(*copy.deepcopy(args)))
    def imap_unordered(self, f, it):
        res = [f(copy.deepcopy(x)) for x in it]
        # nondeterministic order: solver-chosen permutation (here: reversed or not)
        b = SBool(Ctx.cur.fresh(z3.BoolSort(), "sched"))
        return res[::-1] if b else res

def run(name, harness, max_paths=400):
    errs = {}
    def h(ctx):
        try:
            harness(ctx); errs["ok"] = errs.get("ok", 0) + 1
        except AssertionError as e:
            errs["assert: " + str(e)[:60]] = errs.get("assert: " + str(e)[:60], 0) + 1
        except Infeasible: raise
        except Exception as e:
            k = type(e).__name__ + ": " + str(e)[:100]
            if k not in errs: errs[k] = traceback.format_exc(limit=-4)
    t0 = time.time()
    paths, nq, tq = explore(h, max_paths=max_paths)
    print(f"## {name}: paths {paths} queries {nq} solver {tq:.2f}s wall {time.time()-t0:.2f}s")
    for k, v in errs.items(): print("   ==", k, v if isinstance(v, int) else "\n" + v)

def symcol(n, name="x"):
    return pd.Series([SNum(z3.Real(f"{name}{i}")) for i in range(n)], dtype=object)

def h_multi(ctx):
    X = pd.DataFrame({"f": symcol(5)}); y = pd.Series([0, 1, 2, 1, 2])
    c = MulticlassCarver(min_freq=0.3, sort_by="cramerv", quantitative_features=["f"], max_n_mod=3, copy=True)
    out = c.fit_transform(X, y)
run("MulticlassCarver", h_multi)

def h_cont(ctx):
    X = pd.DataFrame({"f": symcol(5)}); y = pd.Series([0.1, 0.5, 0.3, 0.9, 0.7])
    c = ContinuousCarver(min_freq=0.3, quantitative_features=["f"], max_n_mod=3, copy=True)
    out = c.fit_transform(X, y)
run("ContinuousCarver", h_cont)

def h_disc(ctx):
    X = pd.DataFrame({"f": symcol(4), "q": ["a", "b", "a", "c"], "o": ["L", "M", "H", "M"], "extra": [1, 2, 3, 4]}); y = pd.Series([0, 1, 1, 0])
    d = Discretizer(quantitative_features=["f"], qualitative_features=["q"], ordinal_features=["o"], values_orders={"o": ["L", "M", "H"]}, min_freq=0.3, copy=True)
    out = d.fit_transform(X, y)
    out2 = d.transform(X)
    assert list(out["f"]) == list(out2["f"])
run("Discretizer mixed", h_disc)

def h_pool(ctx):
    qd.Pool = FakePool; bd.Pool = FakePool; td.Pool = FakePool
    X = pd.DataFrame({"f": symcol(3), "g": [1.0, 2.0, 2.0]}); y = pd.Series([0, 1, 1])
    c = BinaryCarver(min_freq=0.3, sort_by="cramerv", quantitative_features=["f", "g"], max_n_mod=3, copy=True, n_jobs=2)
    out = c.fit_transform(X, y)
run("BinaryCarver n_jobs=2 with in-process pool", h_pool)
