from typing import Union
from AutoCarver.discretizers.utils.serialization import convert_value_to_base_type, convert_value_to_numpy_type
from AutoCarver.carvers.multiclass_carver import append_class

def _leaf_roundtrip_str(s: str) -> bool:
    """
    pre: len(s) <= 10
    post: _
    """
    return convert_value_to_numpy_type(convert_value_to_base_type(s)) == s

def _append_class_injective(f1: str, c1: str, f2: str, c2: str) -> bool:
    """
    pre: len(f1) <= 3 and len(f2) <= 3 and len(c1) <= 3 and len(c2) <= 3
    pre: len(c1) >= 1 and len(c2) >= 1 and len(f1) >= 1 and len(f2) >= 1
    pre: (f1, c1) != (f2, c2)
    post: _
    """
    return append_class(f1, c1) != append_class(f2, c2)
