import sys, time, z3, warnings, traceback
sys.path.insert(0, "/verif/design_probes")
warnings.filterwarnings("ignore")
from symx import *
import numpy as np, pandas as pd
import AutoCarver.discretizers.utils.quantitative_discretizers as qd
import AutoCarver.discretizers.utils.base_discretizers as bd
from AutoCarver import BinaryCarver
SNum.__array_ufunc__ = None

def sym_isnan(a):
    if isinstance(a, np.ndarray): return np.zeros(len(a), dtype=bool)
    if isinstance(a, Sym): return False
    return np.isnan(a)
qd.isnan = sym_isnan
qd.digitize = lambda x, bins, right=False: np.searchsorted(bins, x, side="left" if right else "right")
_isfinite = bd.isfinite
bd.isfinite = lambda v: True if isinstance(v, Sym) else _isfinite(v)
SNum.__format__ = lambda self, spec: "<" + str(self.e) + ">"
SNum.__float__ = lambda self: (_ for _ in ()).throw(TypeError("symbolic float() requested"))

errs = {}
def harness(ctx, n):
    xs = [SNum(z3.Real(f"x{i}")) for i in range(n)]
    X = pd.DataFrame({"f": pd.Series(xs, dtype=object)})
    if SYMY:
        ys = [SNum(z3.Int(f"y{i}")) for i in range(n)]
        for v in ys: ctx.solver.add(z3.Or(v.e == 0, v.e == 1))
        y = pd.Series(ys, dtype=object)
    else:
        y = pd.Series(([0, 1, 1, 0, 1, 0, 0, 1] * 3)[:n])
    try:
        c = BinaryCarver(min_freq=0.3, sort_by="cramerv", quantitative_features=["f"], max_n_mod=3, copy=True)
        out = c.fit_transform(X, y)
        errs.setdefault("ok", 0); errs["ok"] += 1
    except AssertionError as e:
        errs.setdefault("assert", 0); errs["assert"] += 1
    except Infeasible:
        raise
    except Exception as e:
        k = type(e).__name__ + ": " + str(e)[:90]
        if k not in errs:
            errs[k] = traceback.format_exc(limit=-4)

n = int(sys.argv[1]); SYMY = len(sys.argv) > 3
t0 = time.time()
paths, nq, tq = explore(lambda ctx: harness(ctx, n), max_paths=int(sys.argv[2]))
print("n", n, "paths", paths, "queries", nq, "solver_s", round(tq, 2), "wall", round(time.time() - t0, 2))
for k, v in errs.items(): print("==", k, v if isinstance(v, int) else "\n" + v)
