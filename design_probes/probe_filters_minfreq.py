import sys, time, z3, warnings, traceback
sys.path.insert(0, "/verif/design_probes")
warnings.filterwarnings("ignore")
from symx import *
import numpy as np, pandas as pd
SNum.__array_ufunc__ = None
SNum.__format__ = lambda self, spec: "<" + str(self.e) + ">"

def run(name, harness, max_paths=5000):
    errs = {}
    def h(ctx):
        try:
            harness(ctx); errs["ok"] = errs.get("ok", 0) + 1
        except AssertionError as e:
            errs["assert"] = errs.get("assert", 0) + 1
        except Infeasible: raise
        except Exception as e:
            k = type(e).__name__ + ": " + str(e)[:100]
            if k not in errs: errs[k] = traceback.format_exc(limit=-3)
    t0 = time.time()
    paths, nq, tq = explore(h, max_paths=max_paths)
    print(f"## {name}: paths {paths} queries {nq} solver {tq:.2f}s wall {time.time()-t0:.2f}s")
    for k, v in errs.items(): print("   ==", k, v if isinstance(v, int) else "\n" + v)

# ---- (1) quantitative_filter on symbolic |corr| matrix
from AutoCarver.selectors.filters import quantitative_filters as qf
class CorrX:
    def __init__(self, corr): self._corr = corr
    def __getitem__(self, cols): return CorrX(self._corr.loc[list(cols), list(cols)])
    def corr(self, method): return self._corr
def h1(ctx, m=3):
    feats = [f"f{i}" for i in range(m)]
    C = [[1.0] * m for _ in range(m)]
    for i in range(m):
        for j in range(i + 1, m):
            v = z3.Real(f"r{i}{j}"); ctx.solver.add(v >= -1, v <= 1)
            C[i][j] = C[j][i] = SNum(v)
    corr = pd.DataFrame(C, index=feats, columns=feats, dtype=object)
    ranks = pd.DataFrame({"kruskal_measure": [3.0, 2.0, 1.0][:m]}, index=feats)
    th = SNum(z3.Real("th")); ctx.solver.add(th.e >= 0, th.e <= 1)
    res = qf.quantitative_filter(CorrX(corr), ranks, "spearman", th)
    ctx.result = list(res.index) if hasattr(res, "index") else res
    RES.add(tuple(ctx.result))
RES = set()
run("quantitative_filter", h1)
print("   distinct results:", sorted(RES))

# ---- (2) _check_new_values / _transform_qualitative with symbolic numeric category
from AutoCarver.discretizers.utils.base_discretizers import BaseDiscretizer
from AutoCarver.discretizers import GroupedList
def h2(ctx, default=True):
    content = {"A": ["A"], "B": ["B"]}
    if default: content["__OTHER__"] = ["c", "__OTHER__"]
    d = BaseDiscretizer(["f"], values_orders={"f": GroupedList(content)}, input_dtypes="str", output_dtype="str", str_nan="__NAN__", str_default="__OTHER__", copy=True)
    d.fit()
    v = SNum(z3.Int("v"))
    X = pd.DataFrame({"f": pd.Series(["A", v, "B"], dtype=object)})
    out = d.transform(X)
    ctx.result = list(out["f"])
run("check_new_values(default)", h2)
run("check_new_values(no default)", lambda ctx: h2(ctx, False))

# ---- (3) symbolic min_freq in CategoricalDiscretizer and ChainedDiscretizer
from AutoCarver.discretizers import CategoricalDiscretizer, ChainedDiscretizer
def h3(ctx):
    mf = SNum(z3.Real("mf")); ctx.solver.add(mf.e > 0, mf.e <= 0.5)
    X = pd.DataFrame({"f": ["a"] * 5 + ["b"] * 3 + ["c"] * 1 + ["d"] * 1}); y = pd.Series([0, 1] * 5)
    d = CategoricalDiscretizer(["f"], min_freq=mf, copy=True); d.fit(X, y)
    ctx.result = d.values_orders["f"].content
run("CategoricalDiscretizer symbolic min_freq", h3)
def h4(ctx):
    mf = SNum(z3.Real("mf")); ctx.solver.add(mf.e > 0, mf.e <= 0.5)
    X = pd.DataFrame({"f": ["a1"] * 4 + ["a2"] * 1 + ["b1"] * 3 + ["b2"] * 2}); y = pd.Series([0, 1] * 5)
    lvl1 = GroupedList(["a1", "a2", "b1", "b2"])
    lvl2 = GroupedList({"A": ["a1", "a2", "A"], "B": ["b1", "b2", "B"]})
    lvl3 = GroupedList({"ALL": ["A", "B", "ALL"]})
    d = ChainedDiscretizer(["f"], min_freq=mf, chained_orders=[lvl2, lvl3], copy=True); d.fit(X, y)
    ctx.result = d.values_orders.get("f")
run("ChainedDiscretizer symbolic min_freq", h4)
