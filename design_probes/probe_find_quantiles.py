import sys, time, z3, warnings
sys.path.insert(0, "/verif/design_probes")
warnings.filterwarnings("ignore")
from symx import *
import numpy as np, pandas as pd
import AutoCarver.discretizers.utils.quantitative_discretizers as qd

qd.isnan = lambda a: np.zeros(len(a), dtype=bool)   # harness passes finite symbolic values only

qd.digitize = lambda x, bins, right=False: np.searchsorted(bins, x, side="left" if right else "right")
def harness(ctx, n, q, n_nan=0):
    xs = [SNum(z3.Real(f"x{i}")) for i in range(n)]
    arr = np.array(xs, dtype=object)
    res = qd.np_find_quantiles(arr, q, len_df=n + n_nan, quantiles=[])
    ctx.result = res

n = int(sys.argv[1]); q = int(sys.argv[2])
t0 = time.time()
try:
    paths, nq, tq = explore(lambda ctx: harness(ctx, n, q), max_paths=int(sys.argv[3]))
    print("n", n, "q", q, "paths", paths, "queries", nq, "solver_s", round(tq, 2), "wall", round(time.time() - t0, 2))
except BaseException as e:
    import traceback; traceback.print_exc()
