import sys, time, z3, warnings, traceback, itertools
sys.path.insert(0, "/verif/design_probes")
warnings.filterwarnings("ignore")
from symx_prototype import *
import AutoCarver.discretizers.utils.grouped_list as glm
from AutoCarver.discretizers import GroupedList
_isna = glm.isna
glm.isna = lambda v: False if isinstance(v, Sym) else _isna(v)

def inv(gl):
    keys = list(gl)
    for i in range(len(keys)):
        for j in range(i + 1, len(keys)):
            assert not (keys[i] == keys[j]), "dup leader"
    assert len(keys) == len(gl.content), "keys != content"
    for k in keys:
        assert k in gl.content, "leader not key"
        assert any(bool(k == v) for v in gl.content[k]), "leader not in own group"
    allv = gl.values()
    for i in range(len(allv)):
        for j in range(i + 1, len(allv)):
            assert not (allv[i] == allv[j]), "value twice"

stats = {"ok": 0}
def h(ctx, shape, op):
    # shape: tuple of group sizes
    vals = [SNum(z3.Int(f"v{i}")) for i in range(sum(shape))]
    ctx.solver.add(z3.Distinct(*[v.e for v in vals]))
    content, k = {}, 0
    for s in shape:
        grp = vals[k:k + s]; k += s
        content[grp[0]] = grp[::-1]
    gl = GroupedList(content)
    a, b = SNum(z3.Int("a")), SNum(z3.Int("b"))
    before = gl.values()
    try:
        if op == "group": gl.group(a, b)
        elif op == "remove": gl.remove(a)
        elif op == "append": gl.append(a)
        elif op == "get_group": r = gl.get_group(a)
    except (AssertionError, ValueError, KeyError) as e:
        stats[type(e).__name__] = stats.get(type(e).__name__, 0) + 1
        inv(gl)   # state must be intact after a refused op
        return
    inv(gl); stats["ok"] += 1

t0 = time.time(); tp = tq = 0
for shape in [(1,), (2,), (1, 1), (2, 1), (1, 2), (2, 2), (1, 1, 1), (3, 1), (2, 1, 1)]:
    for op in ["group", "remove", "append", "get_group"]:
        try:
            paths, nq, tqq = explore(lambda ctx: h(ctx, shape, op))
            tp += paths; tq += nq
        except AssertionError as e:
            print("VIOLATION", shape, op, e)
print("paths", tp, "queries", tq, "wall", round(time.time() - t0, 2), stats)
