import sys, time, z3, warnings
sys.path.insert(0, "/verif/design_probes")
warnings.filterwarnings("ignore")
from symx import *
import numpy as np, pandas as pd
from AutoCarver.carvers import binary_carver as bm
from AutoCarver.carvers import base_carver as bc
from AutoCarver.discretizers import GroupedList

# --- rebinding of C-boundary names (the stubs of the claim)
bm.zeros = lambda shape: np.zeros(shape, dtype=object)
def sym_isclose(a, b, rtol=1e-05, atol=1e-08):
    a = list(a); b = list(b)
    out = []
    for x, y in zip(a, b):
        d = abs(x - y)
        out.append(d <= atol + rtol * abs(y))
    return out
bc.isclose = sym_isclose
def chi2_stub(xtab):
    # exact Pearson chi2 (no Yates) as rational function of symbolic cells
    vals = xtab.values
    R = [r[0] + r[1] for r in vals]; C = [sum(r[0] for r in vals), sum(r[1] for r in vals)]
    n = C[0] + C[1]
    chi = 0
    for i, r in enumerate(vals):
        for j in (0, 1):
            e = R[i] * C[j] / n
            chi = chi + (r[j] - e) * (r[j] - e) / e
    return (chi,)
bm.chi2_contingency = chi2_stub
class SqrtTag(SNum): pass
def sym_sqrt(x):
    if isinstance(x, Sym):
        ctx = Ctx.cur
        r = ctx.fresh(z3.RealSort(), "sqrt")
        ctx.solver.add(r >= 0, r * r == _lift(x) if False else r * r == (z3.ToReal(x.e) if x.e.sort() == z3.IntSort() else x.e))
        return SNum(r)
    import math
    return math.sqrt(x)
bm.sqrt = sym_sqrt

def harness(ctx, k=3, B=4, N=10, max_n_mod=3, mfm=0.2, sort_by="cramerv"):
    labels = ["x <= 1.000e+00", "1.000e+00 < x <= 2.000e+00", "2.000e+00 < x <= 3.000e+00", "3.000e+00 < x <= 4.000e+00", "4.000e+00 < x"][:k]
    cells = []
    for i in range(k):
        a = SNum(z3.Real(f"a{i}")); b = SNum(z3.Real(f"b{i}"))
        ctx.solver.add(z3.Or([a.e == v for v in range(B + 1)]), z3.Or([b.e == v for v in range(B + 1)]), a.e + b.e >= 1)
        cells.append([a, b])
    ctx.solver.add(z3.Sum([c[0].e for c in cells]) >= 1, z3.Sum([c[1].e for c in cells]) >= 1)
    ctx.solver.add(z3.Sum([c[0].e + c[1].e for c in cells]) == N)
    xt = pd.DataFrame(cells, index=labels, columns=[0, 1], dtype=object)
    c = bm.BinaryCarver(min_freq=0.1, sort_by=sort_by, quantitative_features=["f"], max_n_mod=max_n_mod, min_freq_mod=mfm)
    c.values_orders = {"f": GroupedList(labels)}
    order = GroupedList(labels)
    memo = {}
    def meas(xtab, n_obs=None):
        key = tuple(xtab.index)
        if key not in memo:
            v = ctx.fresh(z3.RealSort(), "m"); ctx.solver.add(v >= 0)
            memo[key] = v
        return {"cramerv": SNum(memo[key]), "tschuprowt": SNum(memo[key])}
    c._association_measure = meas
    res = c._get_best_combination("f", order, xt, xagg_dev=None)
    ctx.result = res

t0 = time.time()
k = int(sys.argv[1]); B = int(sys.argv[2])
paths, nq, tq = explore(lambda ctx: harness(ctx, k=k, B=B, N=int(sys.argv[4])), max_paths=int(sys.argv[3]))
print("k", k, "B", B, "paths", paths, "queries", nq, "solver_s", round(tq, 2), "wall", round(time.time() - t0, 2))
