import sys, time, z3, warnings, traceback, itertools
sys.path.insert(0, "/verif/design_probes")
warnings.filterwarnings("ignore")
from symx_prototype import *
import numpy as np, pandas as pd
import AutoCarver.discretizers.utils.base_discretizers as bd
import AutoCarver.discretizers.utils.grouped_list as glm
from AutoCarver.discretizers import GroupedList
SNum.__array_ufunc__ = None
_isfinite = bd.isfinite
bd.isfinite = lambda v: True if isinstance(v, Sym) else _isfinite(v)
_isna = glm.isna
glm.isna = lambda v: False if isinstance(v, Sym) else _isna(v)
bd.isna = lambda v: (np.array([False if isinstance(x, Sym) else bool(_isna(x)) for x in v], dtype=bool) if hasattr(v, "__len__") and not isinstance(v, str) else (False if isinstance(v, Sym) else _isna(v)))
SNum.__format__ = lambda self, spec: "<" + str(self.e) + ">"

def run(name, harness, max_paths=100000):
    errs = {}
    def h(ctx):
        try:
            harness(ctx); errs["ok"] = errs.get("ok", 0) + 1
        except AssertionError as e:
            k = "assert: " + str(e)[:80]; errs[k] = errs.get(k, 0) + 1
        except Infeasible: raise
        except Exception as e:
            k = type(e).__name__ + ": " + str(e)[:100]
            if k not in errs: errs[k] = traceback.format_exc(limit=-4)
    t0 = time.time()
    paths, nq, tq = explore(h, max_paths=max_paths)
    print(f"## {name}: paths {paths} queries {nq} solver {tq:.2f}s wall {time.time()-t0:.2f}s")
    for k, v in errs.items(): print("   ==", k, v if isinstance(v, int) else "\n" + v)

# ---------- O3.1: symbolic boundaries, every contiguous grouping via real convert_to_values, two probe rows
def contiguous_groupings(items):
    n = len(items)
    for cuts in itertools.product([0, 1], repeat=n - 1):
        groups, cur = [], [items[0]]
        for c, it in zip(cuts, items[1:]):
            if c: groups.append(cur); cur = [it]
            else: cur.append(it)
        groups.append(cur)
        yield groups

def h_transform(ctx, m, grouping_idx, out_dtype):
    bs = [SNum(z3.Real(f"b{i}")) for i in range(m - 1)]
    for a, b in zip(bs, bs[1:]): ctx.solver.add(a.e < b.e)
    quantiles = bs + [float("inf")]
    vo = {"f": GroupedList(quantiles)}
    labels_orders = bd.convert_to_labels(["f"], ["f"], vo, "__NAN__", dropna=False)
    labels = list(labels_orders["f"])
    groups = list(contiguous_groupings(labels))[grouping_idx]
    new_order = GroupedList(labels)
    for g in groups: new_order.group_list(g, g[0])
    vo = bd.convert_to_values(["f"], ["f"], vo, {"f": new_order}, "__NAN__")
    d = bd.BaseDiscretizer(["f"], values_orders=vo, input_dtypes="float", output_dtype=out_dtype, str_nan="__NAN__", copy=True)
    d.fit()
    x1, x2 = SNum(z3.Real("x1")), SNum(z3.Real("x2")); ctx.solver.add(x1.e <= x2.e)
    X = pd.DataFrame({"f": pd.Series([x1, x2], dtype=object)})
    out = list(d.transform(X)["f"])
    lab_rank = {l: i for i, l in enumerate(dict.fromkeys(d.labels_per_values["f"].values()))}
    assert lab_rank[out[0]] <= lab_rank[out[1]], "NOT MONOTONE"
    # leaders are the max of each group
    leaders = [v for v in d.values_orders["f"]]
    assert len(leaders) == len(groups)

tot = 0
t0 = time.time()
m = 4
ng = 2 ** (m - 1)
for gi in range(ng):
    for od in ("float", "str"):
        run(f"transform m={m} grouping#{gi} {od}", lambda ctx: h_transform(ctx, m, gi, od))
print("total wall", round(time.time() - t0, 1))
