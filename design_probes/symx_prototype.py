"""Prototype: minimal DFS path-exploring symbolic executor on z3 (probe only)."""
import time
import z3


class Infeasible(BaseException):
    pass


class Ctx:
    cur = None

    def __init__(self):
        self.solver = z3.Solver(); self.solver.set("timeout", 5000)
        self.prefix = []      # decisions to replay
        self.trace = []       # decisions taken on this path  (bool, had_alternative)
        self.pos = 0
        self.nq = 0
        self.tq = 0.0
        self.fresh_n = 0

    def check(self, *extra):
        t = time.time()
        r = self.solver.check(*extra)
        self.tq += time.time() - t
        self.nq += 1
        if r == z3.unknown:
            import sys
            print("UNKNOWN after", round(time.time() - t, 2), "s; assertions", len(self.solver.assertions()), file=sys.stderr, flush=True)
            raise RuntimeError("unknown")
        return r == z3.sat

    def branch(self, expr):
        expr = z3.simplify(expr)
        if z3.is_true(expr):
            return True
        if z3.is_false(expr):
            return False
        if self.pos < len(self.prefix):
            d = self.prefix[self.pos]
            self.pos += 1
            self.trace.append((d, False))
            self.solver.add(expr if d else z3.Not(expr))
            return d
        # new decision: try True first
        self.pos += 1
        can_t = self.check(expr)
        can_f = self.check(z3.Not(expr))
        if can_t and can_f:
            self.trace.append((True, True))
            self.solver.add(expr)
            return True
        if can_t:
            self.trace.append((True, False))
            self.solver.add(expr)
            return True
        if can_f:
            self.trace.append((False, False))
            self.solver.add(z3.Not(expr))
            return False
        raise Infeasible()

    def fresh(self, sort, name="t"):
        self.fresh_n += 1
        return z3.Const(f"{name}!{self.fresh_n}", sort)


def explore(harness, max_paths=10**7):
    """harness(ctx) -> None or raises AssertionError (violation)."""
    stack = [[]]
    paths = 0
    nq = 0
    tq = 0.0
    while stack:
        prefix = stack.pop()
        ctx = Ctx()
        ctx.prefix = prefix
        Ctx.cur = ctx
        try:
            harness(ctx)
        except Infeasible:
            pass
        paths += 1
        nq += ctx.nq
        tq += ctx.tq
        # schedule alternatives for decisions made beyond prefix
        for i in range(len(prefix), len(ctx.trace)):
            d, alt = ctx.trace[i]
            if alt:
                stack.append([t[0] for t in ctx.trace[:i]] + [not d])
        if paths >= max_paths:
            break
    return paths, nq, tq


def _lift(v):
    import numpy as _np
    if isinstance(v, _np.generic):
        v = v.item()
    if isinstance(v, Sym):
        return v.e
    if isinstance(v, bool):
        return z3.BoolVal(v)
    if isinstance(v, int):
        return z3.IntVal(v)
    if isinstance(v, float):
        import fractions
        f = fractions.Fraction(v)
        return z3.RealVal(f)
    raise TypeError(type(v))


class Sym:
    __slots__ = ("e",)

    def __init__(self, e):
        self.e = e


class SBool(Sym):
    def __bool__(self):
        return Ctx.cur.branch(self.e)

    def __and__(self, o):
        return SBool(z3.And(self.e, _lift(o)))
    __rand__ = __and__

    def __or__(self, o):
        return SBool(z3.Or(self.e, _lift(o)))
    __ror__ = __or__

    def __invert__(self):
        return SBool(z3.Not(self.e))


def _num(a, b):
    a, b = _lift(a), _lift(b)
    if a.sort() != b.sort():
        if a.sort() == z3.IntSort():
            a = z3.ToReal(a)
        if b.sort() == z3.IntSort():
            b = z3.ToReal(b)
    return a, b


class SNum(Sym):
    def __add__(self, o):
        a, b = _num(self, o); return SNum(a + b)
    def __radd__(self, o):
        a, b = _num(o, self); return SNum(a + b)
    def __sub__(self, o):
        a, b = _num(self, o); return SNum(a - b)
    def __rsub__(self, o):
        a, b = _num(o, self); return SNum(a - b)
    def __mul__(self, o):
        a, b = _num(self, o); return SNum(a * b)
    def __rmul__(self, o):
        a, b = _num(o, self); return SNum(a * b)
    def __truediv__(self, o):
        a, b = _num(self, o)
        if a.sort() == z3.IntSort(): a = z3.ToReal(a)
        if b.sort() == z3.IntSort(): b = z3.ToReal(b)
        return SNum(a / b)
    def __rtruediv__(self, o):
        return SNum(_lift(o)).__truediv__(self)
    def __neg__(self):
        return SNum(-self.e)
    def __abs__(self):
        return SNum(z3.If(self.e >= 0, self.e, -self.e))
    def _special(self, o, op):
        import math
        import numpy as _np
        if isinstance(o, _np.ndarray):
            f = {"lt": lambda a, b: a < b, "le": lambda a, b: a <= b, "gt": lambda a, b: a > b, "ge": lambda a, b: a >= b, "eq": lambda a, b: a == b, "ne": lambda a, b: a != b}[op]
            return _np.array([bool(f(self, x)) for x in o.ravel()], dtype=bool).reshape(o.shape)
        if isinstance(o, _np.generic): o = o.item()
        if isinstance(o, float) and (math.isinf(o) or math.isnan(o)):
            if math.isnan(o): return op == "ne"
            pos = o > 0
            return {"lt": pos, "le": pos, "gt": not pos, "ge": not pos, "eq": False, "ne": True}[op]
        return None
    def __lt__(self, o):
        r = self._special(o, "lt")
        if r is not None: return r
        a, b = _num(self, o); return SBool(a < b)
    def __le__(self, o):
        r = self._special(o, "le")
        if r is not None: return r
        a, b = _num(self, o); return SBool(a <= b)
    def __gt__(self, o):
        r = self._special(o, "gt")
        if r is not None: return r
        a, b = _num(self, o); return SBool(a > b)
    def __ge__(self, o):
        r = self._special(o, "ge")
        if r is not None: return r
        a, b = _num(self, o); return SBool(a >= b)
    def __eq__(self, o):
        if not isinstance(o, (Sym, int, float)):
            return False
        r = self._special(o, "eq")
        if r is not None: return r
        a, b = _num(self, o); return SBool(a == b)
    def __ne__(self, o):
        if not isinstance(o, (Sym, int, float)):
            return True
        r = self._special(o, "ne")
        if r is not None: return r
        a, b = _num(self, o); return SBool(a != b)
    def __hash__(self):
        return 0
