"""C01 — carvers pick the most target-associated viable ordered grouping."""
from harness import k_select


def obligations(tier):
    return [
        k_select.obligation(tier, {"C01"}, "O1.2a selection logic for ANY association measure (abstract measure values, symbolic crosstab cells and min_freq_mod)", "abstract"),
        k_select.obligation(tier, {"C01"}, "O1.2b selection logic with the real chi2-based measures on solver-chosen crosstabs", "real"),
    ]
