"""C01 — carvers pick the most target-associated viable ordered grouping."""
from harness import k_api, k_select


def _fp_lemma(tier):
    import dataclasses

    from harness import C02

    return dataclasses.replace(C02.obligation_printer_fp(tier), name="O1.7" + C02.obligation_printer_fp(tier).name[4:])


def obligations(tier):
    quick = tier == "quick"
    return [
        k_api.obligation_qual(tier, {"C01"}, "O1.6 end to end on qualitative and ordinal features: fitted row partition is among the optimal viable groupings of the brute-force oracle"),
        k_api.obligation(tier, {"C01"}, "O1.5 end to end: complete BinaryCarver / ContinuousCarver fits on symbolic columns; fitted row partition is among the optimal viable groupings of an independent brute-force oracle (real measures)",
                         ["BinaryCarver", "ContinuousCarver"], ns=[4] if quick else [4, 5], max_pats=6 if quick else 24, dev=True),
        k_select.obligation(tier, {"C01"}, "O1.2a selection logic for ANY association measure (abstract measure values, symbolic crosstab cells and min_freq_mod)", "abstract"),
        k_select.obligation_cont(tier, {"C01"}, "O1.4 ContinuousCarver selection logic for ANY measure value (symbolic target values per modality, real _grouper/_printer)"),
        k_select.obligation(tier, {"C01"}, "O1.2b selection logic with the real chi2-based measures on solver-chosen crosstabs", "real"),
        _fp_lemma(tier),
    ]
