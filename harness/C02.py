"""C02 — carved features respect max_n_mod, min_freq_mod and dev robustness."""
import fractions

import pandas as pd

from harness import k_api, k_select
from symx import Obligation, Sym


def h_printer(ctx, k, totals, with_absent):
    """O2.2: the frequency / target-rate table the viability tests read equals its definition."""
    from AutoCarver.carvers import binary_carver as bm

    t = k_select.build_tables(ctx, k, totals, False, 0, "t", absent=((k - 1,) if with_absent else ()))
    labels = k_select.LABELSETS["ord"][:k]
    c = bm.BinaryCarver(min_freq=0.1, sort_by="cramerv", qualitative_features=["f"], copy=True)
    st = c._printer(k_select.to_frame(ctx, t, labels))
    total = sum(tt for i, tt in enumerate(totals) if t.rows[i] is not None)
    for i, lab in enumerate(labels):
        if t.rows[i] is None:
            continue
        neg, pos = t.rows[i]
        got = st.loc[lab, "frequency"]
        # over the reals when the code's value is still a term (exact rational), as the user's float division otherwise; the
        # bit-level question (is it ONE division?) is O2.6's
        want = fractions.Fraction(totals[i], total) if isinstance(got, Sym) else totals[i] / total
        ctx.require(k_select.eqv(got, want) if isinstance(got, Sym) else abs(got - want) <= 1e-12, "C02.printer-frequency", f"frequency of {lab} is {got!r}")
        ctx.require(k_select.eqv(st.loc[lab, "target_rate"] * totals[i], pos), "C02.printer-target-rate", f"target rate of {lab}")
    ctx.require(list(st.index) == labels, "C02.printer-order", "row order changed")
    return dict(counters={"ok": 1}, sample=dict(k=k, totals=totals), result=dict(freq=[st.loc[l, "frequency"] if t.rows[i] is not None else None for i, l in enumerate(labels)]))


def _api_boundary_fit(cells, mfm):
    """Public-API confirmation on a two-modality feature: BinaryCarver with min_freq_mod = mfm must keep `f` iff
    every modality holds count/N >= mfm (one float division) and the two target rates differ."""
    import warnings

    from AutoCarver import BinaryCarver

    col, yy = [], []
    for lab, (neg, pos) in zip("ab", cells):
        col += [lab] * (neg + pos)
        yy += [0] * neg + [1] * pos
    X = pd.DataFrame({"f": pd.Series(col, dtype=object)})
    y = pd.Series(yy)
    n = len(col)
    counts = [neg + pos for neg, pos in cells]
    min_freq = min(min(counts) / n / 2, 0.5)
    carver = BinaryCarver(qualitative_features=["f"], min_freq=min_freq, min_freq_mod=mfm, max_n_mod=2, sort_by="cramerv",
                          dropna=False, copy=True, verbose=False)
    with warnings.catch_warnings():
        warnings.simplefilter("ignore")
        carver.fit(X, y)
    rates_differ = cells[0][1] * counts[1] != cells[1][1] * counts[0]
    viable = all(c / n >= mfm for c in counts) and rates_differ
    return ("f" in carver.features), viable


def h_printer_fp(ctx, B):
    """O2.6: IEEE-double lemma behind the numeric model (F4).  On a two-modality crosstab the `frequency` the real
    BinaryCarver._printer computes for the rarer modality is, bit for bit, ONE correctly rounded division count/N.
    (For the rarer modality any other double is observable: min_freq_mod = count/N, or = the computed double, flips the
    viability decision against the definition.)  Counterexamples are confirmed through BinaryCarver.fit."""
    from AutoCarver.carvers import binary_carver as bm
    from symx import fp

    conc = getattr(ctx, "concrete", False)
    if not conc:
        ctx.solver.set("timeout", fp.FP_TIMEOUT_MS)
    labels = ["a", "b"]
    cells = [(fp.fp_uint(ctx, f"neg{i}", B), fp.fp_uint(ctx, f"pos{i}", B)) for i in range(2)]
    for neg, pos in cells:
        fp.assume_positive(ctx, [neg, pos])
    flat = [c for row in cells for c in row]
    # modality a is the rarer one (the table is symmetric in its rows); the two target rates differ; both classes occur
    cnt = [fp.exact_sum(list(r)) for r in cells]
    if conc:
        ctx.assume(cnt[0] <= cnt[1])
        ctx.assume(cells[0][1] * cnt[1] != cells[1][1] * cnt[0])
        ctx.assume(0 < cells[0][1] + cells[1][1] < cnt[0] + cnt[1])
    else:
        import z3

        w = 2 * fp.BVW
        ext = lambda t: z3.ZeroExt(w - fp.BVW, t)
        ctx.assume(z3.ULE(cnt[0], cnt[1]))
        ctx.assume(ext(cells[0][1].bv) * ext(cnt[1]) != ext(cells[1][1].bv) * ext(cnt[0]))
        pos_tot = fp.exact_sum([cells[0][1], cells[1][1]])
        ctx.assume(z3.And(z3.UGT(pos_tot, 0), z3.ULT(pos_tot, fp.exact_sum(flat))))
    xtab = pd.DataFrame({0: pd.Series([r[0] for r in cells], index=labels, dtype=None if conc else object),
                         1: pd.Series([r[1] for r in cells], index=labels, dtype=None if conc else object)})
    c = bm.BinaryCarver(min_freq=0.1, sort_by="cramerv", qualitative_features=["f"], copy=True)
    st = c._printer(xtab)
    ctx.require(list(st.index) == labels, "C02.printer-order", "row order changed")
    got = st.loc["a", "frequency"]
    if conc:
        n = sum(flat)
        spec = cnt[0] / n
        got = float(got)
        if got != spec:
            # a threshold that separates the two doubles; the definition (count/N >= min_freq_mod) decides
            mfm = max(got, spec)
            kept, viable = _api_boundary_fit(cells, mfm)
            what = f"crosstab a={cells[0]}, b={cells[1]} (neg, pos), min_freq_mod={mfm!r}: modality a holds count/N={spec!r} of the rows, the carver judges it on {got!r}"
            if viable:
                ctx.require(kept, "C01.dropped-although-viable", "feature dropped although its only grouping is viable: " + what, extra=dict(boundary="min_freq_mod == count/N"))
            else:
                ctx.require(not kept, "C02.constraint-violated", "feature kept although a modality holds less than min_freq_mod of the rows: " + what, extra=dict(boundary="min_freq_mod == computed frequency"))
        else:
            kept, viable = _api_boundary_fit(cells, spec)
            ctx.require(kept == viable, "C01.dropped-although-viable" if viable else "C02.constraint-violated",
                        f"min_freq_mod exactly count/N={spec!r}: feature kept={kept}, definition says viable={viable} (crosstab {cells})", extra=dict(boundary="min_freq_mod == count/N"))
    else:
        fp.require_ratio(ctx, got, list(cells[0]), flat, "C02.printer-frequency-double",
                         "the frequency computed for the rarer modality is not the double count/N", extra=dict(column="frequency"))
    return dict(counters={"ok": 1}, sample=dict(B=B), result=None)


def obligation_printer_fp(tier):
    jobs = [dict(B=15)] + ([] if tier == "quick" else [dict(B=63), dict(B=255)])
    return Obligation(name="O2.6 IEEE-double lemma: the frequency BinaryCarver judges a modality on is bit-identical to one division count/N (min_freq_mod boundary); counterexamples confirmed through BinaryCarver.fit",
                      harness=h_printer_fp, jobs=jobs, encodes=["BinaryCarver._printer", "BaseCarver._test_viability (confirmation)", "BinaryCarver.fit (confirmation)"],
                      rebindings=["none: the real pandas column arithmetic runs on IEEE-double proxies (z3 FloatingPoint theory, RNE, bit-blasted)"],
                      bounds="two-modality crosstabs, every cell in 0..15 (N <= 60)" + ("" if tier == "quick" else "; cells 0..63 and 0..255"),
                      outside="more modalities; the target-rate column (a one-ulp difference is far below the isclose tolerance for counts in the bound); ContinuousCarver._printer (its counts are concrete list lengths)",
                      twin_every=1, budget_s=900.0, abstract_ok=True)


def h_multi_c02(ctx, n, n_nan, ypat, params):
    """O2.7: the literal C02 statement on every generated column of a MulticlassCarver with an explicit min_freq_mod."""
    from AutoCarver import MulticlassCarver
    from symx import Violation
    from symx.rebind import rebound

    X, xs = k_api.make_X(ctx, n, n_nan, companions=False)
    N = n + n_nan
    y = pd.Series(list(ypat)[:N], index=X.index)
    with rebound(ctx, ["R1", "R2"]):
        mc = MulticlassCarver(quantitative_features=["f"], copy=True, **params)
        try:
            mc.fit(X, y)
        except Violation:
            raise
        except AssertionError as e:
            return dict(counters={"assertion": 1}, sample=dict(ypat=ypat, outcome="AssertionError"), result=dict(outcome="AssertionError"))
        ctx.require(mc.min_freq_mod == params["min_freq_mod"], "C02.min-freq-mod-default", f"given min_freq_mod not kept: {mc.min_freq_mod!r}")
        out = mc.transform(X)
        cols = [c for c in out.columns if c != "f"]
        for c in cols:
            cls_label = c[len("f_"):]
            ind = [1 if str(v) == cls_label else 0 for v in y]
            k_api.check_c02(ctx, mc, list(out[c]), n, n_nan, ind, params)
    return dict(counters={"ok": 1, "columns": len(cols)}, sample=dict(ypat=ypat, cols=cols), result=dict(cols=sorted(cols)))


def obligation_multi(tier):
    quick = tier == "quick"
    jobs = []
    for n, n_nan in (((5, 0), (4, 1)) if quick else ((5, 0), (4, 1), (5, 1))):
        pats = k_api.ypatterns("multiclass", n + n_nan)
        cap = 6 if quick else 20
        step = len(pats) / cap
        for ypat in [pats[int(i * step)] for i in range(cap)]:
            for params in [dict(min_freq=0.2, min_freq_mod=0.4, sort_by="cramerv", max_n_mod=3, output_dtype="str", dropna=True)] + ([] if quick else [dict(min_freq=0.2, min_freq_mod=0.3, sort_by="tschuprowt", max_n_mod=2, output_dtype="float", dropna=False)]):
                jobs.append(dict(n=n, n_nan=n_nan, ypat=ypat, params=params))
    return Obligation(name="O2.7 MulticlassCarver with an explicit min_freq_mod: every generated column has <= max_n_mod labels, each >= min_freq_mod frequent, NaN per dropna",
                      harness=h_multi_c02, jobs=jobs, encodes=k_api.ENC_COMMON + k_api.ENC_CARVER + ["MulticlassCarver.fit/transform"], rebindings=k_api.RB,
                      bounds=f"n=4-5 symbolic rows (+0/1 NaN), {6 if quick else 20} three-class target patterns, min_freq_mod=0.4 > min_freq/2", twin_every=5, budget_s=6.0)


def h_minfreqmod(ctx, given):
    """O2.3: min_freq_mod defaults to min_freq/2 and is kept when given."""
    from AutoCarver import BinaryCarver, ContinuousCarver

    mf = ctx.real("min_freq")
    ctx.assume(mf > 0)
    ctx.assume(mf <= 0.5)
    for cls, kw in ((BinaryCarver, dict(sort_by="cramerv")), (ContinuousCarver, {})):
        if given:
            mfm = ctx.real("mfm")
            ctx.assume(mfm > 0)
            c = cls(min_freq=mf, quantitative_features=["f"], min_freq_mod=mfm, **kw)
            ctx.require(k_select.eqv(c.min_freq_mod, mfm), "C02.min-freq-mod-default", "given min_freq_mod not kept")
        else:
            c = cls(min_freq=mf, quantitative_features=["f"], **kw)
            ctx.require(k_select.eqv(c.min_freq_mod * 2, mf), "C02.min-freq-mod-default", f"default min_freq_mod is {c.min_freq_mod!r}, expected min_freq/2")
    return dict(counters={"ok": 1}, sample=dict(given=given))


def obligations(tier):
    pj = [dict(k=k, totals=t, with_absent=a) for k, t in ((2, (2, 3)), (3, (1, 3, 2)), (4, (2, 2, 1, 3))) for a in (False, True)]
    return [
        k_api.obligation_qual(tier, {"C02"}, "O2.5 end to end on qualitative and ordinal features: literal C02 statement on the transformed training frame"),
        k_api.obligation(tier, {"C02"}, "O2.4 end to end: transformed training frame has <= max_n_mod labels, each >= min_freq_mod frequent, NaN per dropna",
                         ["BinaryCarver", "ContinuousCarver"], ns=[4] if tier == "quick" else [4, 5], max_pats=6 if tier == "quick" else 24, dev=True),
        k_select.obligation(tier, {"C02"}, "O2.1a returned groupings respect max_n_mod (NaN group included), min_freq_mod on train and dev, dev rank agreement - any measure", "abstract"),
        k_select.obligation_cont(tier, {"C02"}, "O2.1c ContinuousCarver: returned groupings respect max_n_mod, min_freq_mod, NaN handling (any measure value)"),
        k_select.obligation(tier, {"C02"}, "O2.1b same with the real measures on solver-chosen crosstabs", "real"),
        Obligation(name="O2.2 BinaryCarver._printer: frequency and target_rate equal their definitions", harness=h_printer, jobs=pj,
                   encodes=["BinaryCarver._printer"], bounds="k<=4 modalities, symbolic positives, one modality possibly absent", twin_every=2),
        obligation_printer_fp(tier),
        obligation_multi(tier),
        Obligation(name="O2.3 min_freq_mod defaults to min_freq/2", harness=h_minfreqmod, jobs=[dict(given=False), dict(given=True)],
                   encodes=["BaseCarver.__init__"], bounds="min_freq any real in (0,0.5]", twin=False),
    ]
