"""C02 — carved features respect max_n_mod, min_freq_mod and dev robustness."""
import pandas as pd

from harness import k_api, k_select
from symx import Obligation


def h_printer(ctx, k, totals, with_absent):
    """O2.2: the frequency / target-rate table the viability tests read equals its definition."""
    from AutoCarver.carvers import binary_carver as bm

    t = k_select.build_tables(ctx, k, totals, False, 0, "t", absent=((k - 1,) if with_absent else ()))
    labels = k_select.LABELSETS["ord"][:k]
    c = bm.BinaryCarver(min_freq=0.1, sort_by="cramerv", qualitative_features=["f"], copy=True)
    st = c._printer(k_select.to_frame(ctx, t, labels))
    total = sum(tt for i, tt in enumerate(totals) if t.rows[i] is not None)
    for i, lab in enumerate(labels):
        if t.rows[i] is None:
            continue
        neg, pos = t.rows[i]
        ctx.require(k_select.eqv(st.loc[lab, "frequency"], totals[i] / total), "C02.printer-frequency", f"frequency of {lab} is {st.loc[lab, 'frequency']!r}")
        ctx.require(k_select.eqv(st.loc[lab, "target_rate"] * totals[i], pos), "C02.printer-target-rate", f"target rate of {lab}")
    ctx.require(list(st.index) == labels, "C02.printer-order", "row order changed")
    return dict(counters={"ok": 1}, sample=dict(k=k, totals=totals), result=dict(freq=[st.loc[l, "frequency"] if t.rows[i] is not None else None for i, l in enumerate(labels)]))


def h_minfreqmod(ctx, given):
    """O2.3: min_freq_mod defaults to min_freq/2 and is kept when given."""
    from AutoCarver import BinaryCarver, ContinuousCarver

    mf = ctx.real("min_freq")
    ctx.assume(mf > 0)
    ctx.assume(mf <= 0.5)
    for cls, kw in ((BinaryCarver, dict(sort_by="cramerv")), (ContinuousCarver, {})):
        if given:
            mfm = ctx.real("mfm")
            ctx.assume(mfm > 0)
            c = cls(min_freq=mf, quantitative_features=["f"], min_freq_mod=mfm, **kw)
            ctx.require(k_select.eqv(c.min_freq_mod, mfm), "C02.min-freq-mod-default", "given min_freq_mod not kept")
        else:
            c = cls(min_freq=mf, quantitative_features=["f"], **kw)
            ctx.require(k_select.eqv(c.min_freq_mod * 2, mf), "C02.min-freq-mod-default", f"default min_freq_mod is {c.min_freq_mod!r}, expected min_freq/2")
    return dict(counters={"ok": 1}, sample=dict(given=given))


def obligations(tier):
    pj = [dict(k=k, totals=t, with_absent=a) for k, t in ((2, (2, 3)), (3, (1, 3, 2)), (4, (2, 2, 1, 3))) for a in (False, True)]
    return [
        k_api.obligation_qual(tier, {"C02"}, "O2.5 end to end on qualitative and ordinal features: literal C02 statement on the transformed training frame"),
        k_api.obligation(tier, {"C02"}, "O2.4 end to end: transformed training frame has <= max_n_mod labels, each >= min_freq_mod frequent, NaN per dropna",
                         ["BinaryCarver", "ContinuousCarver"], ns=[4] if tier == "quick" else [4, 5], max_pats=6 if tier == "quick" else 24, dev=True),
        k_select.obligation(tier, {"C02"}, "O2.1a returned groupings respect max_n_mod (NaN group included), min_freq_mod on train and dev, dev rank agreement - any measure", "abstract"),
        k_select.obligation_cont(tier, {"C02"}, "O2.1c ContinuousCarver: returned groupings respect max_n_mod, min_freq_mod, NaN handling (any measure value)"),
        k_select.obligation(tier, {"C02"}, "O2.1b same with the real measures on solver-chosen crosstabs", "real"),
        Obligation(name="O2.2 BinaryCarver._printer: frequency and target_rate equal their definitions", harness=h_printer, jobs=pj,
                   encodes=["BinaryCarver._printer"], bounds="k<=4 modalities, symbolic positives, one modality possibly absent", twin_every=2),
        Obligation(name="O2.3 min_freq_mod defaults to min_freq/2", harness=h_minfreqmod, jobs=[dict(given=False), dict(given=True)],
                   encodes=["BaseCarver.__init__"], bounds="min_freq any real in (0,0.5]", twin=False),
    ]
