"""C03 — grouping preserves each feature's order (contiguity, monotone transform)."""
from harness import k_api, k_categorical, k_ordinal, k_quantiles, k_transform


def obligations(tier):
    quick = tier == "quick"
    return [
        k_api.obligation(tier, {"C03"}, "O3.6 end to end: fitted leaders strictly increasing observed values then +inf; float output monotone in the training values",
                         ["BinaryCarver", "QuantitativeDiscretizer"], ns=[4] if quick else [4, 5], max_pats=6 if quick else 20,
                         param_grid=[dict(min_freq=0.25, sort_by="cramerv", max_n_mod=3, output_dtype="float", dropna=True)] if quick else None),
        k_transform.obligation(tier, {"C03"}, "O3.1 transform of a quantitative feature is a total, monotone step function (first group whose leader >= x; leader = largest boundary)"),
        k_quantiles.obligation(tier, {"C03"}, "O3.2 quantile boundaries are sorted observed values followed by the +inf sentinel", ["sorted", "free"]),
        k_categorical.obligation(tier, {"C03"}, "O3.4 categorical modalities are ordered by training target rate (NaN last)"),
        k_ordinal.obligation(tier, {"C03"}, "O3.3 ordinal groups are contiguous runs of the supplied ranking, in ranking order"),
    ]


ASSUMPTIONS = ["feature values are only compared, never computed with (F1, enforced: arithmetic on SVal raises EncodingError)"]
