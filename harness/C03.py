"""C03 — grouping preserves each feature's order (contiguity, monotone transform)."""
from harness import k_transform


def obligations(tier):
    return [
        k_transform.obligation(tier, {"C03"}, "O3.1 transform of a quantitative feature is a total, monotone step function (first group whose leader >= x; leader = largest boundary)"),
    ]


ASSUMPTIONS = ["feature values are only compared, never computed with (F1, enforced: arithmetic on SVal raises EncodingError)"]
