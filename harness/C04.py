"""C04 — transform is exactly the mapping described by the fitted values_orders."""
from harness import k_qualitative, k_transform, o_labels


def obligations(tier):
    return [
        k_transform.obligation(tier, {"C04"}, "O4.1a quantitative: label = first group whose upper bound >= value; float labels are group ranks; NaN rows per dropna"),
        k_qualitative.obligation(tier, {"C04"}, "O4.1b qualitative: every known member (incl. numeric-valued ones) maps to its group's label"),
    ]


def post(tier):
    return [o_labels.run(tier)]


ASSUMPTIONS = ["R3: a formatted symbolic boundary is an opaque token; textual collisions of distinct boundaries are decided separately (O4.2)"]
