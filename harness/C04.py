"""C04 — transform is exactly the mapping described by the fitted values_orders."""
from harness import C17, k_dtypes, k_qualitative, k_string, k_transform, o_labels


def obligations(tier):
    rebuilt = C17.obligations(tier, prefix="O4.5")  # manually edited objects and objects rebuilt from JSON map rows like the original
    for ob in rebuilt:
        ob.twin_every = 1
    return rebuilt + [
        k_transform.obligation(tier, {"C04"}, "O4.1a quantitative: label = first group whose upper bound >= value; float labels are group ranks; NaN rows per dropna"),
        k_dtypes.obligation(tier, "O4.4 numeric pandas dtypes and magnitudes at transform time (int64/uint64/nullable columns up to 2**60, float32, object): every row gets the label of the first group whose upper bound is >= its value, compared exactly"),
        k_string.obligation(tier, "O4.3 numeric-looking qualitative values are matched through their string form (int -> str(int), integer-valued float -> str(int), others str(v)); a pre-existing equal string shares the group"),
        k_qualitative.obligation(tier, {"C04"}, "O4.1b qualitative: every known member (incl. numeric-valued ones) maps to its group's label"),
    ]


def post(tier):
    return [o_labels.run(tier)]


ASSUMPTIONS = ["R3: a formatted symbolic boundary is an opaque token; textual collisions of distinct boundaries are decided separately (O4.2)"]
