"""C05 — unseen data is given fitted labels or rejected, never passed through."""
from harness import k_qualitative, k_transform


def obligations(tier):
    return [
        k_transform.obligation(tier, {"C05"}, "O5.1 quantitative: every finite real gets a fitted label; unexpected NaN -> AssertionError naming the feature; empty/single-row frames"),
        k_qualitative.obligation(tier, {"C05"}, "O5.3 qualitative: unseen category -> default group or AssertionError naming the feature; NaN where none was fitted -> AssertionError"),
    ]


ASSUMPTIONS = ["qualitative category text is concrete; which value each row takes is solver-chosen"]
