"""C05 — unseen data is given fitted labels or rejected, never passed through."""
from harness import k_api, k_dtypes, k_qualitative, k_transform


def obligations(tier):
    quick = tier == "quick"
    from harness import C17

    edited = C17.obligations(tier, prefix="O5.5")  # "all fitted objects" includes manually edited ones: no raw value leaks after update_discretizer
    return edited + [
        k_api.obligation(tier, {"C05"}, "O5.2 end to end: after complete fits an unseen finite value gets a fitted label; unexpected NaN -> AssertionError naming the feature",
                         ["BinaryCarver", "Discretizer"], ns=[3] if quick else [3, 4], max_pats=6 if quick else 14),
        k_dtypes.obligation(tier, "O5.4 numeric pandas dtypes at transform time (incl. nullable Int64/Float64 with pd.NA): fitted labels, or AssertionError naming the feature for unexpected missing values; output independent of the dtype"),
        k_transform.obligation(tier, {"C05"}, "O5.1 quantitative: every finite real gets a fitted label; unexpected NaN -> AssertionError naming the feature; empty/single-row frames"),
        k_qualitative.obligation(tier, {"C05"}, "O5.3 qualitative: unseen category -> default group or AssertionError naming the feature; NaN where none was fitted -> AssertionError"),
    ]


ASSUMPTIONS = ["qualitative category text is concrete; which value each row takes is solver-chosen"]
