"""C06 — JSON save/load round trip preserves behaviour."""
from __future__ import annotations

import json

import numpy as np
import pandas as pd

from harness import C17, k_api, xh
from harness.common import contains, eqv
from harness.k_transform import NAN, contiguous_groupings
from symx import Obligation, Sym, Violation
from symx.rebind import rebound


# ----------------------------------------------------------------------------- O6.2 container plumbing on symbolic leaders
class _JsonToken:
    """Contract stub for json.dumps/loads: structure preserved, dict keys become str(key)."""

    def __init__(self, payload):
        self.payload = payload


def _jsonify(o):
    if isinstance(o, dict):
        return {(k if isinstance(k, str) else str(k)): _jsonify(v) for k, v in o.items()}
    if isinstance(o, (list, tuple)):
        return [_jsonify(v) for v in o]
    return o


def stub_dumps(o, *a, **k):
    return _JsonToken(_jsonify(o))


def stub_loads(tok, *a, **k):
    return tok.payload


def h_plumbing(ctx, m, gi, nan_mode):
    import AutoCarver.discretizers.utils.serialization as ser
    from harness import k_transform

    grouping = contiguous_groupings(m)[gi]
    extra = [("AutoCarver.discretizers.utils.serialization", "dumps", stub_dumps), ("AutoCarver.discretizers.utils.serialization", "loads", stub_loads)]
    if getattr(ctx, "concrete", False):
        extra = []
    with rebound(ctx, ["R1"], extra=extra):
        d, spec, nan_group, has_nan, quantiles = k_transform.build_fitted(ctx, m, grouping, nan_mode, "str", True)
        vo = d.values_orders
        ser_ = ser.json_serialize_values_orders(vo)
        back = ser.json_deserialize_values_orders(ser_)
        ctx.require(list(back.keys()) == ["f"], "C06.plumbing-features", f"features after reload: {list(back.keys())}")
        o1, o2 = vo["f"], back["f"]
        ctx.require(len(o1) == len(o2), "C06.plumbing-order", f"order length {len(o1)} -> {len(o2)}")
        for a, b in zip(list(o1), list(o2)):
            ctx.require(eqv(a, b), "C06.plumbing-order", f"leader {a!r} reloaded as {b!r}")
            c1, c2 = o1.content[a], o2.content[b]
            ctx.require(len(c1) == len(c2), "C06.plumbing-content", f"content of {a!r}: {c1!r} -> {c2!r}")
            for x, y in zip(c1, c2):
                ctx.require(eqv(x, y), "C06.plumbing-content", f"member {x!r} of {a!r} reloaded as {y!r}")
        # the serialised form is made of base types only (str / int / float / list / dict), inf as its sentinel
        payload = ser_.payload if isinstance(ser_, _JsonToken) else json.loads(ser_)
        flat = payload["f"]["order"]
        ctx.require(not any(isinstance(v, float) and v == float("inf") for v in flat), "C06.plumbing-inf", "inf written as a bare float (not valid JSON)")
    return dict(counters={"ok": 1}, sample=dict(m=m, grouping=grouping, nan_mode=nan_mode), result=dict(n=len(o2)))


# ----------------------------------------------------------------------------- O6.4 type / magnitude grid (concrete, solver-chosen picks)
QUAL_SETS = [["a", "b", "c"], [1, 2, 3], [1.0, 2.0, 3.0], ["1", 2, 3.0], ["x", 10, "y"], ["-1", "0.5", "1e3"]]


def h_grid(ctx, cls):
    from AutoCarver import BinaryCarver, ContinuousCarver, MulticlassCarver, load_carver
    from AutoCarver.discretizers import Discretizer
    from AutoCarver.discretizers.utils.base_discretizers import load_discretizer

    dt = ["float64", "float32", "int64"][ctx.choose("dtype", 3)]
    scale = [1e-8, 1.0, 1e12, -3.0][ctx.choose("scale", 4)]
    qs = QUAL_SETS[ctx.choose("qual", len(QUAL_SETS))]
    with_nan = ctx.choose("nan", 2)
    n = 24
    base = np.array([(i * 7) % 12 + 1 for i in range(n)], dtype=float)
    f = base * scale
    if dt == "int64":
        f = (base * (abs(scale) if abs(scale) >= 1 else 1)).astype("int64") * (1 if scale > 0 else -1)
    else:
        f = f.astype(dt)
    fcol = pd.Series(f)
    if with_nan and dt != "int64":
        fcol = fcol.astype("float64" if dt == "float64" else dt)
        fcol.iloc[[3, 11]] = np.nan
    q = pd.Series([qs[i % 3] for i in range(n)], dtype=object)
    if all(isinstance(v, (int, float)) for v in qs) and ctx.choose("qual_native_dtype", 2):
        # numeric-valued categories held in a numeric column (members are numpy scalars in the fitted object, Python numbers after a reload)
        q = q.astype("float64" if (with_nan or any(isinstance(v, float) for v in qs)) else "int64")
    if with_nan:
        q.iloc[[5, 17]] = np.nan
    X = pd.DataFrame({"f": fcol, "q": q})
    yb = pd.Series([1 if (base[i] > 6) != (i % 5 == 0) else 0 for i in range(n)])
    if cls == "BinaryCarver":
        obj = BinaryCarver(min_freq=0.15, sort_by="cramerv", quantitative_features=["f"], qualitative_features=["q"], max_n_mod=3, copy=True, output_dtype=["float", "str"][ctx.choose("od", 2)],
                           dropna=bool(ctx.choose("dropna", 2)))
        y = yb
    elif cls == "ContinuousCarver":
        obj = ContinuousCarver(min_freq=0.15, quantitative_features=["f"], qualitative_features=["q"], max_n_mod=3, copy=True, output_dtype="str")
        y = pd.Series(base + np.arange(n) * 0.01)
    elif cls == "MulticlassCarver":
        obj = MulticlassCarver(min_freq=0.15, sort_by="tschuprowt", quantitative_features=["f"], qualitative_features=["q"], max_n_mod=3, copy=True)
        y = pd.Series([int(b) % 3 for b in base])
    else:
        obj = Discretizer(quantitative_features=["f"], qualitative_features=["q"], min_freq=0.15, copy=True)
        y = yb
    try:
        obj.fit(X, y)
    except AssertionError:
        return dict(counters={"fit_refused": 1}, sample=dict(cls=cls, dtype=dt, scale=scale, qual=qs))
    try:
        js = json.dumps(obj.to_json())
    except Exception as e:
        ctx.require(False, "C06.not-json-serialisable", f"{cls}.to_json() is not serialisable by json ({type(e).__name__}: {str(e)[:100]}) for dtype={dt}, scale={scale}, categories={qs}")
    loader = load_carver if "Carver" in cls else load_discretizer
    try:
        loaded = loader(json.loads(js))
    except Exception as e:
        ctx.require(False, "C06.reload-failed", f"reload raised {type(e).__name__}: {str(e)[:120]} for dtype={dt}, scale={scale}, categories={qs}")
    frames = [X, X.iloc[::-1].reset_index(drop=True)]
    Xu = X.copy()
    Xu["f"] = (Xu["f"].astype(float) * 1.37 + 0.1).astype(X["f"].dtype if dt != "int64" else "float64")
    frames.append(Xu)
    for k, F in enumerate(frames):
        def run(o):
            try:
                return ("ok", o.transform(F))
            except AssertionError as e:
                return ("AssertionError", None)
            except Exception as e:
                return (f"{type(e).__name__}: {str(e)[:80]}", None)
        s1, o1 = run(obj)
        s2, o2 = run(loaded)
        ctx.require(s1 == s2, "C06.transform-differs-after-reload", f"{cls} frame#{k}: original {s1}, reloaded {s2} (dtype={dt}, scale={scale}, categories={qs}, nan={with_nan})")
        if o1 is not None:
            for c in o1.columns:
                ctx.require(k_api.col_equal(list(o1[c]), list(o2[c])), "C06.transform-differs-after-reload",
                            f"{cls} frame#{k} column {c}: {list(o1[c])[:6]}... vs {list(o2[c])[:6]}... (dtype={dt}, scale={scale}, categories={qs})")
    if obj.features:
        s1 = obj.summary().reset_index().to_dict("records")
        s2 = loaded.summary().reset_index().to_dict("records")
        ctx.require(json.dumps(s1, default=repr) == json.dumps(s2, default=repr), "C06.summary-differs-after-reload", f"{s1[:2]} vs {s2[:2]} (dtype={dt}, categories={qs})")
    a, b = json.loads(js), json.loads(json.dumps(loaded.to_json()))
    for d_ in (a, b):
        d_.pop("_history", None)
        d_["values_orders"] = json.loads(d_["values_orders"])
        d_["features"] = sorted(d_["features"])
    ctx.require(a == b, "C06.reserialisation-differs", f"re-serialised JSON differs (dtype={dt}, scale={scale}, categories={qs}): keys {[k for k in a if a[k] != b.get(k)]}")
    return dict(counters={"ok": 1}, sample=dict(cls=cls, dtype=dt, scale=scale, qual=qs, nan=with_nan), result=dict(features=sorted(obj.features)))


# ----------------------------------------------------------------------------- O6.1 leaf values (CrossHair)
def sentinel_api_witness():
    """API-level replay of the sentinel collision: a category literally named 'numpy.inf'."""
    from AutoCarver import BinaryCarver, load_carver

    rows = []
    for lab, n, p in [("numpy.inf", 20, 2), ("B", 20, 8), ("C", 20, 15)]:
        rows += [(lab, 1)] * p + [(lab, 0)] * (n - p)
    X = pd.DataFrame({"f": [r[0] for r in rows]})
    y = pd.Series([r[1] for r in rows])
    c = BinaryCarver(min_freq=0.1, sort_by="cramerv", qualitative_features=["f"], max_n_mod=3, copy=True, output_dtype="str")
    c.fit(X, y)
    c2 = load_carver(json.loads(json.dumps(c.to_json())))
    try:
        return c.transform(X)["f"].tolist() != c2.transform(X)["f"].tolist(), "different output"
    except AssertionError as e:
        return True, "reloaded object rejects the training frame: " + str(e)[:80]


def post(tier):
    res = dict(name="O6.1 leaf values survive convert_value_to_base_type / convert_value_to_numpy_type (CrossHair on the real functions; API-level replay)",
               ok=False, states=0, queries=0, solver_s=0.0, twin=0, violations=[], errors=[], samples=[])
    try:
        results, wall, rc, tail = xh.run_file(xh.VERIF + "/crosshair/c06_leaf.py", 25 if tier == "quick" else 90)
    except Exception as e:
        res["errors"].append(f"crosshair failed: {type(e).__name__}: {e}")
        return [res]
    res["solver_s"] = round(wall, 2)
    by = {r["fn"]: r for r in results}
    res["states"] = res["queries"] = len(results)
    res["crosshair"] = {k: v["verdict"] for k, v in by.items()}
    if by.get("_reach_str", {}).get("verdict") != "refuted":
        res["errors"].append("vacuity guard: reachability twin not refuted")
    r = by.get("_leaf_roundtrip_str")
    if r is None or r["verdict"] == "unknown":
        res["errors"].append(f"CrossHair inconclusive on _leaf_roundtrip_str: {r and r['msg']}")
    elif r["verdict"] == "refuted":
        from AutoCarver.discretizers.utils.serialization import convert_value_to_base_type, convert_value_to_numpy_type

        s = r["args"][0] if r["args"] else None
        rep = s is not None and convert_value_to_numpy_type(convert_value_to_base_type(s)) != s
        res["twin"] += 1
        api, how = sentinel_api_witness()
        res["samples"].append(dict(counterexample=repr(s), reproduced_on_real_functions=rep, api_level=how if api else "not reproduced"))
        if rep and api:
            res["violations"].append(dict(ob=res["name"], kind="C06.sentinel-collision", reproduced=True,
                                          message=f"string {s!r} does not survive the leaf round trip (it is the inf sentinel); API level: a category named 'numpy.inf' -> {how}",
                                          model=dict(s=repr(s)), raw_model=dict(s=repr(s)), job=dict(obligation="O6.1"), extra=dict(value=s)))
        elif not rep:
            res["errors"].append(f"CrossHair counterexample {s!r} did not reproduce")
    # (numeric leaves are covered by O6.2 on symbolic values: CrossHair's symbolic numbers cannot cross
    #  the numpy.isfinite C boundary)
    for fn in ("_leaf_roundtrip_str_excluding_sentinel",):
        r = by.get(fn)
        if r is None or r["verdict"] != "confirmed":
            if r is not None and r["verdict"] == "refuted":
                res["violations"].append(dict(ob=res["name"], kind="C06.leaf-roundtrip", reproduced=True, message=f"{fn}: {r['msg']}", model={}, raw_model={}, job=dict(obligation="O6.1", fn=fn), extra=dict(fn=fn)))
            else:
                res["errors"].append(f"{fn} not confirmed by CrossHair: {r}")
    res["ok"] = not res["errors"] and not res["violations"]
    return [res]


def obligations(tier):
    quick = tier == "quick"
    pj = []
    for m in ([2, 3] if quick else [2, 3, 4, 5]):
        for gi in range(len(contiguous_groupings(m))):
            g = len(contiguous_groupings(m)[gi])
            for nan_mode in ["none", "alone", "0"] + ([str(g - 1)] if g > 1 else []):
                pj.append(dict(m=m, gi=gi, nan_mode=nan_mode))
    api = k_api.obligation(tier, {"C06"}, "O6.3 end to end: on the concrete witness of every explored path the fitted object survives real json.dumps/loads + load_carver/load_discretizer: same transform, same summary, same re-serialisation",
                           ["BinaryCarver", "ContinuousCarver", "Discretizer"], ns=[4], max_pats=4 if quick else 14, companions=True)
    api.twin_every = 1
    edited = C17.obligations(tier, prefix="O6.5")  # manually edited groups (update_discretizer), incl. dropna=False objects: JSON round trip on the witness of every sampled path
    for ob in edited:
        ob.twin_every = 1
    return edited + [
        Obligation(name="O6.2 values_orders dump/rebuild: order, content, merged NaN and the inf leader are restored (symbolic numeric leaders; json.dumps/loads as a structural contract stub)",
                   harness=h_plumbing, jobs=pj, encodes=["serialization.json_serialize_values_orders", "serialization.json_deserialize_values_orders", "serialization.convert_values_to_base_types",
                                                        "serialization.convert_values_to_numpy_types", "serialization.convert_value_to_base_type", "serialization.convert_value_to_numpy_type", "GroupedList.__init__(dict)"],
                   rebindings=["R1", "json.dumps/loads -> structural stub (dict keys become str(key))"], bounds=f"m <= {3 if quick else 5} symbolic boundaries, every grouping, NaN absent/alone/merged", twin_every=2),
        api,
        Obligation(name="O6.4 type and magnitude grid: float64/float32/int64 columns, scales 1e-8..1e12 and negative, str/int/float/mixed/numeric-looking categories, NaN: real fit -> json -> reload -> same behaviour",
                   harness=h_grid, jobs=[dict(cls=c) for c in ("BinaryCarver", "ContinuousCarver", "MulticlassCarver", "Discretizer")],
                   encodes=["BaseDiscretizer.to_json", "BaseCarver.to_json", "load_carver", "load_discretizer", "serialization.*"],
                   bounds="4 classes x 3 dtypes x 4 scales x 6 category sets x NaN x output_dtype x dropna (solver-chosen picks on a concrete 24-row sample)", twin_every=3),
    ]


ASSUMPTIONS = ["float(repr(x)) == x and json writes dict keys as str(key) (CPython guarantees, trusted)"]
