"""C07 — fit/transform coherence, row-wise purity and absence of side effects."""
from harness import C12, k_api, k_qualitative, k_transform


def obligations(tier):
    quick = tier == "quick"
    return [
        k_api.obligation(tier, {"C07"}, "O7.1 complete fits: fit_transform == fit+transform; subset/permutation/re-index purity; repeated transforms; inputs untouched",
                         ["BinaryCarver", "ContinuousCarver", "Discretizer", "QuantitativeDiscretizer"], companions=True, ns=[3] if quick else [3, 4],
                         param_grid=None),
        k_transform.obligation(tier, {"C07"}, "O7.2 transform kernel: row purity, repeat, index/columns kept, caller's frame untouched (symbolic boundaries and rows)", ms=[2, 3] if quick else [2, 3, 4]),
        k_qualitative.obligation(tier, {"C07"}, "O7.3 qualitative transform: row purity, index/columns kept, caller's frame untouched"),
        C12.obligation_c07(tier),
    ]
