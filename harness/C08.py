"""C08 — fit ends in a coherent fitted object or a clean AssertionError."""
from harness import C10, k_api, k_categorical, k_ordinal, k_quantiles, k_transform


def obligations(tier):
    quick = tier == "quick"
    multi = next(o for o in C10.obligations(tier) if o.harness is C10.h_indep)
    multi.name = "O8.10 several features at once (quantitative, qualitative, numeric-valued, two identifier-like columns dropped by the base discretizer): fit completes, every feature consistent with its fit alone"
    multi.jobs = [j for j in multi.jobs if j["mode"] in ("together", "hash")]
    return [multi,
        k_api.obligation_qual(tier, {"C08"}, "O8.8 end to end on qualitative and ordinal features: completes, attributes coherent, partition well formed and covering, dropped features untouched"),
        k_api.obligation(tier, {"C08"}, "O8.6 end to end: every class completes or raises AssertionError; per-feature attributes coherent; values_orders a well-formed partition covering the training values; dropped features untouched",
                         ["BinaryCarver", "ContinuousCarver", "Discretizer", "QuantitativeDiscretizer", "ContinuousDiscretizer"], ns=[4] if quick else [4, 5], max_pats=6 if quick else 20),
        k_quantiles.obligation(tier, {"C08"}, "O8.1 find_quantiles/fit_feature: no internal error, unique strictly increasing leaders, inf sentinel", ["sorted", "free"]),
        k_api.obligation(tier, {"C08", "C05"}, "O8.9 degenerate quantitative columns: all-missing column, a single non-missing value among missing ones (every class): completes or AssertionError, coherent afterwards",
                         ["BinaryCarver", "ContinuousCarver", "Discretizer", "QuantitativeDiscretizer", "ContinuousDiscretizer"], ns=[0, 1], nan_opts=(3,), max_pats=3),
        k_categorical.obligation(tier, {"C08"}, "O8.7 qualitative / ordinal features with solver-chosen level sizes (incl. every level rarer than min_freq) through Categorical-, Qualitative-Discretizer and Discretizer: completes, attributes coherent, dropped features untouched"),
        k_ordinal.obligation(tier, {"C08"}, "O8.2 OrdinalDiscretizer.fit: terminates without internal error; result is a well-formed partition of the ranking"),
    ]
