"""C08 — fit ends in a coherent fitted object or a clean AssertionError."""
from harness import k_ordinal, k_quantiles, k_transform


def obligations(tier):
    return [
        k_quantiles.obligation(tier, {"C08"}, "O8.1 find_quantiles/fit_feature: no internal error, unique strictly increasing leaders, inf sentinel", ["sorted", "free"]),
        k_ordinal.obligation(tier, {"C08"}, "O8.2 OrdinalDiscretizer.fit: terminates without internal error; result is a well-formed partition of the ranking"),
    ]
