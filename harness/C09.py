"""C09 — base discretization honours min_freq and keeps its granularity."""
from harness import k_api, k_categorical, k_ordinal, k_quantiles


def obligations(tier):
    quick = tier == "quick"
    return [
        k_api.obligation(tier, {"C09"}, "O9.3 end to end: QuantitativeDiscretizer/Discretizer buckets hold >= min_freq/2 of the rows unless one remains; NaN separate",
                         ["QuantitativeDiscretizer", "Discretizer"], ns=[4] if quick else [4, 5, 6], max_pats=3 if quick else 6,
                         param_grid=[dict(min_freq=0.5), dict(min_freq=0.25), dict(min_freq=0.2)] + ([] if quick else [dict(min_freq=0.34), dict(min_freq=0.15)])),
        k_categorical.obligation(tier, {"C09"}, "O9.4 a categorical value is in the default group iff it is rarer than min_freq; NaN stays separate"),
        k_ordinal.obligation(tier, {"C09"}, "O9.1 ordinal buckets hold >= min_freq of the rows (or one bucket remains); NaN stays its own modality; min_freq symbolic in (0,0.5]"),
        k_quantiles.obligation_profile(tier, "O9.5 ContinuousDiscretizer on larger samples given by solver-chosen multiplicity profiles: boundaries, frequent values and the 2.5/q bucket bound"),
        k_quantiles.obligation_minfreq_link(tier, "O9.6 a value holding at least min_freq of the rows is a boundary, for min_freq values whose reciprocal is an integer, rounds up, rounds down"),
        k_quantiles.obligation(tier, {"C09", "C03"}, "O9.2 ContinuousDiscretizer boundaries: strictly increasing observed values then +inf; frequent values are boundaries; bucket-size bound",
                               ["sorted", "perm"]),
    ]


ASSUMPTIONS = ["sizes are concrete, so round(len/len_df*q), linspace and numpy's virtual quantile index are computed by the real float code (F2)",
               "frequencies are compared as one float division count/len (F3/F4)"]
