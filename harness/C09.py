"""C09 — base discretization honours min_freq and keeps its granularity."""
from harness import k_ordinal, k_quantiles


def obligations(tier):
    return [
        k_ordinal.obligation(tier, {"C09"}, "O9.1 ordinal buckets hold >= min_freq of the rows (or one bucket remains); NaN stays its own modality; min_freq symbolic in (0,0.5]"),
        k_quantiles.obligation(tier, {"C09", "C03"}, "O9.2 ContinuousDiscretizer boundaries: strictly increasing observed values then +inf; frequent values are boundaries; bucket-size bound",
                               ["sorted", "perm"]),
    ]


ASSUMPTIONS = ["sizes are concrete, so round(len/len_df*q), linspace and numpy's virtual quantile index are computed by the real float code (F2)",
               "frequencies are compared as one float division count/len (F3/F4)"]
