"""C10 — features are processed independently; parallel equals sequential.

R8: multiprocessing.Pool is replaced by an in-process pool that pickles its arguments and results (workers
share no memory with the parent) and hands results back in a solver-chosen completion order; the
name `set` in the modules that build feature lists is replaced by a container whose iteration
order is a solver-chosen permutation (= every PYTHONHASHSEED)."""
from __future__ import annotations

import copy
import pickle
import itertools
import math

import pandas as pd

from harness import k_api
from harness.common import eqv
from harness.k_api import col_equal
from symx import Ctx, Obligation, Sym, Violation
from symx.rebind import rebound

MODS_SET = ["AutoCarver.discretizers.utils.base_discretizers", "AutoCarver.carvers.base_carver", "AutoCarver.discretizers.discretizers"]
MODS_POOL = ["AutoCarver.discretizers.utils.base_discretizers", "AutoCarver.discretizers.utils.quantitative_discretizers", "AutoCarver.discretizers.utils.type_discretizers"]


UNIVERSE = ["q", "i1", "i2"]  # names whose relative order is permuted; other names keep their position after them


class _Sched:
    universe = None
    ctx = None
    n = 0
    order = None

    @classmethod
    def pick(cls, k, tag):
        if k <= 1 or cls.ctx is None or getattr(cls.ctx, "concrete", False) and f"{tag}{cls.n}" not in cls.ctx.model:
            cls.n += 1
            return 0
        cls.n += 1
        return cls.ctx.choose(f"{tag}{cls.n - 1}", k)


class PSet(list):
    """`set` stand-in: deduplicated, iterated in a solver-chosen order."""

    def __init__(self, it=()):
        seen = []
        for v in it:
            if v not in seen:
                seen.append(v)
        if len(seen) > 1 and all(isinstance(v, str) for v in seen):
            # one solver-chosen global order of the feature names per path (a hash seed), applied to every set
            if _Sched.order is None:
                perms = list(itertools.permutations(_Sched.universe or UNIVERSE))
                _Sched.order = list(perms[_Sched.pick(len(perms), "hash")])
            rank = {v: i for i, v in enumerate(_Sched.order)}
            seen.sort(key=lambda v: rank.get(v, len(rank)))
        super().__init__(seen)

    # the rest of the set API (a maintenance change may use set algebra on the result): answered by a real set of the
    # same elements; only the iteration order is modelled
    def __getattr__(self, name):
        if name.startswith("__"):
            raise AttributeError(name)
        return getattr(set(self), name)

    def _other(self, o):
        return set(o) if isinstance(o, (PSet, set, frozenset)) else o

    def __and__(self, o):
        return PSet(v for v in self if v in self._other(o))

    def __rand__(self, o):
        return PSet(v for v in o if v in set(self))

    def __or__(self, o):
        return PSet(list(self) + [v for v in o])

    __ror__ = __or__

    def __sub__(self, o):
        return PSet(v for v in self if v not in self._other(o))

    def __rsub__(self, o):
        return PSet(v for v in o if v not in set(self))

    def __xor__(self, o):
        return (self - o) | (PSet(o) - self)

    def __eq__(self, o):
        if isinstance(o, (set, frozenset, PSet)):
            return set(self) == set(o)
        return list.__eq__(self, o)

    def __ne__(self, o):
        return not self.__eq__(o)

    __hash__ = None

    def __le__(self, o):
        return set(self) <= set(o)

    def __ge__(self, o):
        return set(self) >= set(o)

    def __lt__(self, o):
        return set(self) < set(o)

    def __gt__(self, o):
        return set(self) > set(o)

    def add(self, v):
        if v not in self:
            self.append(v)

    def discard(self, v):
        if v in self:
            self.remove(v)

    def update(self, *others):
        for o in others:
            for v in o:
                self.add(v)


def _pk(o):
    """Arguments and results cross the (modelled) process boundary by pickling, as in multiprocessing."""
    return pickle.loads(pickle.dumps(o))


class FakeAsync:
    def __init__(self, v):
        self.v = v

    def get(self):
        return self.v


class FakePool:
    def __init__(self, processes=None):
        self.processes = processes

    def __enter__(self):
        return self

    def __exit__(self, *a):
        return False

    def apply_async(self, f, args):
        return FakeAsync(_pk(f(*_pk(args))))

    def imap_unordered(self, f, it):
        res = [_pk(f(_pk(x))) for x in it]
        if len(res) > 1:
            perms = list(itertools.permutations(range(len(res))))
            order = perms[_Sched.pick(len(perms), "sched")]
            res = [res[i] for i in order]
        return res


def vo_equal(a, b):
    la, lb = list(a), list(b)
    if len(la) != len(lb):
        return False
    for x, y in zip(la, lb):
        r = eqv(x, y)
        if not (bool(r) if isinstance(r, Sym) else r):
            return False
        ca, cb = a.content[x], b.content[y]
        if len(ca) != len(cb):
            return False
        for u, v in zip(ca, cb):
            r = eqv(u, v)
            if not (bool(r) if isinstance(r, Sym) else r):
                return False
    return True


def make(cls, feats_quanti, feats_quali, params, n_jobs=1):
    from AutoCarver import BinaryCarver, ContinuousCarver
    from AutoCarver.discretizers import Discretizer

    p = dict(params)
    if cls == "BinaryCarver":
        return BinaryCarver(quantitative_features=feats_quanti, qualitative_features=feats_quali, copy=True, n_jobs=n_jobs, **p)
    if cls == "ContinuousCarver":
        p.pop("sort_by", None)
        return ContinuousCarver(quantitative_features=feats_quanti, qualitative_features=feats_quali, copy=True, n_jobs=n_jobs, **p)
    for k in ("sort_by", "max_n_mod", "output_dtype", "dropna"):
        p.pop(k, None)
    return Discretizer(quantitative_features=feats_quanti, qualitative_features=feats_quali, copy=True, n_jobs=n_jobs, **p)


QUANTI = ["f", "g"]
QUALI = ["q", "n", "m", "i1", "i2"]


def h_indep(ctx, cls, n, n_nan, ypat, params, mode):
    X, xs = k_api.make_X(ctx, n, n_nan, companions=False)
    N = n + n_nan
    X["g"] = [float((i * 5) % 4) for i in range(N)]
    X["q"] = (["a", "b", "a", "c", "b", "a"] * 3)[:N]
    X["n"] = ([1, 2, 2, 3, 1, 3] * 3)[:N]  # numeric-valued qualitative feature (StringDiscretizer path)
    import numpy as np

    # a second numeric-valued qualitative feature of another numeric dtype (float32 codes that float64 renders differently)
    X["m"] = pd.Series(([0.1, 0.2, 0.2, 0.3, 0.1, 0.3] * 3)[:N], dtype=np.float32, index=X.index)
    X["i1"] = [f"id{i}" for i in range(N)]  # identifier-like columns: every modality rarer than min_freq
    X["i2"] = [f"key{(i * 3) % 7}" for i in range(N)]
    y = pd.Series(list(ypat)[:N], index=X.index)
    _Sched.ctx, _Sched.n, _Sched.order = ctx, 0, None
    with rebound(ctx, ["R1", "R2"]):
        def fit(obj, frame):
            try:
                obj.fit(frame, y)
                return "ok"
            except AssertionError as e:
                return "AssertionError"
            except Violation:
                raise
            except Exception as e:
                import traceback
                ctx.require(False, "C08.internal-error", f"{cls}.fit on features {obj.features} raised {type(e).__name__}: {str(e)[:140]} | {traceback.format_exc(limit=-2)[-300:]}")

        # reference: every feature fitted ALONE
        ref = {}
        for ft in QUANTI + QUALI:
            o = make(cls, [ft] if ft in QUANTI else [], [ft] if ft in QUALI else [], params)
            st = fit(o, X)
            kept = st == "ok" and ft in o.features
            ref[ft] = dict(status=st, kept=kept, vo=o.values_orders.get(ft) if kept else None, out=list(o.transform(X)[ft]) if kept else None)
        kept_ref = ref["f"]["kept"]

        def compare(obj, status, frame, what, feats):
            if status != "ok":
                ctx.require(any(ref[ft]["status"] != "ok" for ft in feats), "C10.fit-fails-only-together", f"{what}: fit refused although every feature fits alone")
                return
            ctx.require(all(ref[ft]["status"] == "ok" for ft in feats), "C10.depends-on-other-features", f"{what}: features fit together although one of them is refused alone")
            out = obj.transform(frame)
            for ft in feats:
                kept = ft in obj.features
                ctx.require(kept == ref[ft]["kept"], "C10.depends-on-other-features", f"{what}: {ft} kept={kept} but kept={ref[ft]['kept']} when fitted alone")
                if kept:
                    ctx.require(vo_equal(obj.values_orders[ft], ref[ft]["vo"]), "C10.depends-on-other-features",
                                f"{what}: values_orders[{ft!r}] {dict(obj.values_orders[ft].content)!r} != alone {dict(ref[ft]['vo'].content)!r}")
                    ctx.require(col_equal(list(out[ft]), ref[ft]["out"]), "C10.depends-on-other-features", f"{what}: transform output of {ft} differs from the one obtained alone")
                else:
                    ctx.require(col_equal(list(out[ft]), list(frame[ft])), "C10.dropped-feature-touched", f"{what}: dropped feature {ft} was modified by transform")

        if mode == "together":
            o = make(cls, list(QUANTI), list(QUALI), params)
            compare(o, fit(o, X), X, "all features together", QUANTI + QUALI)
            o2 = make(cls, QUANTI[::-1], QUALI[::-1], params)
            X2 = X[(QUALI + QUANTI)[::-1]]
            compare(o2, fit(o2, X2), X2, "feature lists and DataFrame columns reordered", QUANTI + QUALI)
        elif mode == "hash":
            # every relative iteration order of three of the names in list(set(features)) (= hash seeds)
            extra = [(m, "set", PSet) for m in MODS_SET]
            with rebound(ctx, [], extra=extra, always=True):
                o = make(cls, ["f"], ["q", "i1", "i2"], params)
                st = fit(o, X)
            compare(o, st, X, "solver-chosen iteration order of set(features)", ["f", "q", "i1", "i2"])
        elif mode == "pool":
            extra = [(m, "Pool", FakePool) for m in MODS_POOL]
            with rebound(ctx, [], extra=extra, always=True):
                nj = 2 + ctx.choose("n_jobs", 2)
                o = make(cls, list(QUANTI), ["q", "n", "m"], params, n_jobs=nj)
                st = fit(o, X)
                if st == "ok":
                    seq = make(cls, list(QUANTI), ["q", "n", "m"], params, n_jobs=1)
                    fit(seq, X)
                    ctx.require(sorted(o.features) == sorted(seq.features), "C10.parallel-differs", f"n_jobs={nj}: kept features {sorted(o.features)} vs sequential {sorted(seq.features)}")
                    for ft in seq.features:
                        ctx.require(vo_equal(o.values_orders[ft], seq.values_orders[ft]), "C10.parallel-differs", f"n_jobs={nj}: values_orders[{ft!r}] differs from n_jobs=1")
                    outp, outs = o.transform(X), seq.transform(X)
                    for c in outs.columns:
                        ctx.require(col_equal(list(outp[c]), list(outs[c])), "C10.parallel-differs", f"n_jobs={nj}: transform column {c} differs from n_jobs=1")
                compare(o, st, X, f"n_jobs>1 with a solver-chosen completion order", QUANTI + ["q", "n", "m"])
    return dict(counters={"ok": 1, "kept": int(kept_ref)}, sample=dict(cls=cls, mode=mode, ypat=ypat, kept={k_: v["kept"] for k_, v in ref.items()}), result=dict(kept={k_: v["kept"] for k_, v in ref.items()}))


def h_multi_names(ctx, params):
    """O10.2: MulticlassCarver on two quantitative features, one of which is named like the other plus '_<class>': the columns
    carved from the longer-named feature do not depend on the other feature being fitted alongside, for every iteration order of
    set(features).  (That the raw column of that name is overwritten in the output is the open finding KF-C12-2; it is not
    asserted here.)"""
    import numpy as np

    from AutoCarver import BinaryCarver, MulticlassCarver

    n = 18
    X = pd.DataFrame({"a": [float((i * 7) % 9) for i in range(n)], "a_2": [float((i * 5) % 6) + 0.5 for i in range(n)]})
    y = pd.Series([0, 1, 2, 0, 1, 2, 2, 1, 0, 0, 2, 1, 1, 0, 2, 2, 0, 1])
    classes = sorted(set(str(v) for v in y))
    expected = {}
    for ci in classes[1:]:
        bc = BinaryCarver(quantitative_features=["a_2"], copy=True, **params)
        bc.fit(X, (y.astype(str) == ci).astype(int))
        expected[ci] = list(bc.transform(X)["a_2"]) if "a_2" in bc.features else None
    _Sched.ctx, _Sched.n, _Sched.order, _Sched.universe = ctx, 0, None, ["a", "a_2"]
    try:
        extra = [(m, "set", PSet) for m in MODS_SET + ["AutoCarver.carvers.multiclass_carver"]]
        with rebound(ctx, [], extra=extra, always=True):
            mc = MulticlassCarver(quantitative_features=["a", "a_2"], copy=True, **params)
            try:
                mc.fit(X, y)
                out = mc.transform(X)
            except Violation:
                raise
            except AssertionError as e:
                from symx import Infeasible
                raise Infeasible()  # (vacuity guard: the obligation must reach its final assertion on some path)
            except Exception as e:
                ctx.require(False, "C08.internal-error", f"MulticlassCarver on features ['a', 'a_2'] raised {type(e).__name__}: {str(e)[:140]}")
    finally:
        _Sched.universe = None
    for ci in classes[1:]:
        col = f"a_2_{ci}"
        kept = col in mc.features
        ctx.require(kept == (expected[ci] is not None), "C10.depends-on-other-features", f"{col} kept={kept} next to feature 'a', kept={expected[ci] is not None} when 'a_2' is carved alone (set order {_Sched.order})")
        if kept:
            ctx.require(col_equal(list(out[col]), expected[ci]), "C10.depends-on-other-features",
                        f"{col} = {list(out[col])[:8]}... next to feature 'a' but {expected[ci][:8]}... when 'a_2' is carved alone (iteration order of set(features): {_Sched.order})")
    return dict(counters={"ok": 1}, sample=dict(order=_Sched.order, cols=sorted(mc.features)))


def obligations(tier):
    quick = tier == "quick"
    jobs = []
    for cls in ("BinaryCarver", "Discretizer") + (() if quick else ("ContinuousCarver",)):
        kind = "continuous" if cls == "ContinuousCarver" else "binary"
        for n, n_nan in (((3, 0), (3, 1)) if quick else ((3, 0), (3, 1), (4, 0))):
            pats = k_api.ypatterns(kind, n + n_nan)
            cap = 3 if quick else 8
            if len(pats) > cap:
                step = len(pats) / cap
                pats = [pats[int(i * step)] for i in range(cap)]
            for params in ([dict(min_freq=0.34, sort_by="cramerv", max_n_mod=3, output_dtype="float", dropna=True)] if quick else k_api.default_params(cls, True)):
                for mode in ("together", "hash", "pool"):
                    for ypat in pats:
                        jobs.append(dict(cls=cls, n=n, n_nan=n_nan, ypat=ypat, params=params, mode=mode))
    return [
        Obligation(
            name="O10.2 MulticlassCarver: columns carved from a feature whose name is another feature's name plus '_<class>' do not depend on that other feature, for every iteration order of set(features)",
            harness=h_multi_names, jobs=[dict(params=dict(min_freq=0.2, sort_by="cramerv", max_n_mod=3, output_dtype=od, dropna=True)) for od in ("float", "str")],
            encodes=["MulticlassCarver.fit/transform", "BaseDiscretizer._cast_features", "multiclass_carver.append_class"], rebindings=["R8 set -> solver-chosen iteration order"],
            bounds="concrete 18-row sample, features 'a' and 'a_2', classes 0/1/2; iteration order solver-chosen", twin=False, budget_s=6.0,
        ),
        Obligation(
            name="O10 a feature's fitted grouping and transform do not depend on companion features, on list/column order, on the iteration order of set(features), nor on n_jobs / worker completion order",
            harness=h_indep, jobs=jobs, encodes=k_api.ENC_COMMON + k_api.ENC_CARVER + ["StringDiscretizer.fit", "type_discretizers.fit_feature", "CategoricalDiscretizer.fit", "QualitativeDiscretizer.fit"],
            rebindings=k_api.RB + ["R8 Pool -> in-process pool with solver-chosen completion order; set -> solver-chosen iteration order"],
            bounds=f"symbolic quantitative feature f (n=3{'' if quick else '-4'} rows +0/1 NaN) with concrete companions g (quantitative), q, n (int64 codes), m (float32 codes) (qualitative); "
                   "all orders of set iteration (<= 4 names), all completion orders of the pool, n_jobs in {2,3}",
            outside="real OS processes (pickling, start-up failures): only the order effects of hashing and scheduling are modelled (Pool workers share no memory with the parent)",
            twin_every=7, budget_s=6.0,
        )
    ]
