"""C11 — carving is invariant under information-preserving re-encodings."""
from __future__ import annotations

import itertools
import math

import numpy as np
import pandas as pd

from harness import k_api, k_quantiles
from harness.k_api import row_partition
from symx import Obligation, Violation
from symx.rebind import rebound


def _fit(ctx, cls, params, X, y, feats_kw):
    obj = k_api.build(cls, params, False) if feats_kw is None else feats_kw()
    try:
        obj.fit(X, y)
    except AssertionError:
        return None, "AssertionError"
    except Violation:
        raise
    except Exception as e:  # an internal error on one of two equivalent encodings is a dependence on the encoding (and a C08 violation)
        import traceback

        ctx.require(False, "C08.internal-error", f"{cls}.fit raised {type(e).__name__}: {str(e)[:140]} | {traceback.format_exc(limit=-2)[-300:]}")
    return obj, "ok"


def h_rows(ctx, cls, n, n_nan, ypat, params, relabel):
    """O11.3 row permutation (solver-chosen) with index relabelling."""
    X, xs = k_api.make_X(ctx, n, n_nan, companions=False)
    N = n + n_nan
    y = pd.Series(list(ypat)[:N], index=X.index)
    perms = list(itertools.permutations(range(N))) if N <= 3 else [tuple(reversed(range(N)))] + [tuple((i + r) % N for i in range(N)) for r in range(1, N)] + [tuple([1, 0] + list(range(2, N)))]
    perm = list(perms[ctx.choose("perm", len(perms))])
    with rebound(ctx, ["R1", "R2"]):
        a, sa = _fit(ctx, cls, params, X, y, None)
        Xp = X.iloc[perm].copy()
        yp = y.iloc[perm].copy()
        if relabel == "offset":
            idx = [int(i) + 1000 for i in Xp.index]
        elif relabel == "shuffled":
            idx = [(int(i) * 7919) % 10007 for i in Xp.index]
        elif relabel == "str":
            idx = [f"row{int(i):04d}" for i in Xp.index]
        else:
            idx = list(Xp.index)
        Xp.index = idx
        yp.index = idx
        b, sb = _fit(ctx, cls, params, Xp, yp, None)
        ctx.require(sa == sb, "C11.row-permutation", f"fit {sa} on the original rows, {sb} after permutation {perm} / index relabelling {relabel}")
        if a is None:
            return dict(counters={"refused": 1}, sample=dict(cls=cls, perm=perm), result=dict(outcome=sa))
        ka, kb = "f" in a.features, "f" in b.features
        ctx.require(ka == kb, "C11.row-permutation", f"feature kept={ka} on the original rows, kept={kb} after permutation {perm} / index relabelling {relabel}")
        part = None
        if ka:
            pa = row_partition(list(a.transform(X)["f"]))
            outb = list(b.transform(Xp)["f"])
            back = [None] * N
            for pos, r in enumerate(perm):
                back[r] = outb[pos]
            pb = row_partition(back)
            ctx.require(pa == pb, "C11.row-permutation", f"row partition {pa} becomes {pb} after permutation {perm} / index relabelling {relabel}")
            part = pa
    return dict(counters={"ok": 1}, sample=dict(cls=cls, perm=perm, relabel=relabel, kept=ka), result=dict(kept=ka, part=part))


GRIDS = {
    # exactly representable images of an affine map with a large offset / a tiny unit: neighbouring values differ by far
    # less than any "closeness" tolerance (relative 1e-9 resp. absolute 1e-12), yet are distinct doubles
    "offset": [2.0**20 + k / 1024.0 for k in range(48)],
    "tiny": [(k + 1) * 2.0**-40 for k in range(48)],
}


def h_monotone(ctx, cls, n, n_nan, ypat, params, encoding="free"):
    """O11.1 at API level: any strictly increasing re-encoding x -> x' (covers a*x+b, a>0)."""
    X, xs = k_api.make_X(ctx, n, n_nan, companions=False)
    N = n + n_nan
    y = pd.Series(list(ypat)[:N], index=X.index)
    X2, ys = k_api.make_X(ctx, n, n_nan, companions=False, prefix="w")
    if encoding != "free":
        import fractions

        import z3

        for w in ys:
            if getattr(ctx, "concrete", False):
                ctx.assume(any(w == g for g in GRIDS[encoding]))
            else:
                ctx.assume(z3.Or([w.e == z3.RealVal(fractions.Fraction(g)) for g in GRIDS[encoding]]))
    for i, j in itertools.combinations(range(n), 2):
        ctx.assume((xs[i] < xs[j]) == (ys[i] < ys[j]))
        ctx.assume((xs[i] == xs[j]) == (ys[i] == ys[j]))
    with rebound(ctx, ["R1", "R2"]):
        a, sa = _fit(ctx, cls, params, X, y, None)
        b, sb = _fit(ctx, cls, params, X2, y, None)
        ctx.require(sa == sb, "C11.monotone-map", f"fit {sa} before and {sb} after a strictly increasing re-encoding")
        if a is None:
            return dict(counters={"refused": 1}, sample=dict(cls=cls), result=dict(outcome=sa))
        ka, kb = "f" in a.features, "f" in b.features
        ctx.require(ka == kb, "C11.monotone-map", f"feature kept={ka} before, kept={kb} after a strictly increasing re-encoding")
        part = None
        if ka:
            pa = row_partition(list(a.transform(X)["f"]))
            pb = row_partition(list(b.transform(X2)["f"]))
            ctx.require(pa == pb, "C11.monotone-map", f"row partition {pa} becomes {pb} after a strictly increasing re-encoding")
            part = pa
    return dict(counters={"ok": 1}, sample=dict(cls=cls, x=xs, w=ys, kept=ka), result=dict(kept=ka, part=part))


RENAMES = {
    "qual": (["a", "b", "c", "d"], ["k1", "k2", "k3", "k4"]),          # order-preserving bijection
    "qual_case": (["B", "a", "c", "d"], ["Q", "q1", "q2", "q3"]),    # upper-case sorts first in both
    "ord": (["m", "c", "x", "a"], ["t2", "t1", "t3", "t0"]),
    # numeric codes held as floats: renamed by +1200000 (same order of the codes and of their string forms; 7 significant digits)
    "qual_float": ([1.0, 2.0, 3.0, 4.0], [1200001.0, 1200002.0, 1200003.0, 1200004.0]),          # ranking m<c<x<a, renamed consistently (lexicographic order preserved)
}


def h_rename(ctx, cls, kind, sizes, params, perm="none", rename=True):
    """O11.2 renaming the categories by an order-preserving bijection and/or permuting the rows."""
    from AutoCarver import BinaryCarver, ContinuousCarver

    old, new = RENAMES[kind]
    k = len(sizes)
    old, new = old[:k], new[:k]
    col, ycol = [], []
    for c, sz in enumerate(sizes):
        pos = ctx.choose(f"pos{c}", sz + 1)
        col += [old[c]] * sz
        ycol += [1] * pos + [0] * (sz - pos)
    ctx.assume(0 < sum(ycol) < len(ycol))
    X = pd.DataFrame({"f": pd.Series(col, dtype=object)})
    if cls == "ContinuousCarver":
        y = pd.Series([v + 0.01 * i for i, v in enumerate(ycol)])
    else:
        y = pd.Series(ycol)
    if not rename:
        new = old
    mp = dict(zip(old, new))
    n_rows = len(col)
    order = list(range(n_rows))
    if perm == "reverse":
        order = order[::-1]
    elif perm == "interleave":
        order = order[::2] + order[1::2]
    elif perm == "rotate":
        r = 1 + ctx.choose("rot", n_rows - 1)
        order = order[r:] + order[:r]
    X2 = pd.DataFrame({"f": pd.Series([mp[col[i]] for i in order], dtype=object)})
    y2 = pd.Series([list(y)[i] for i in order])

    def mk(names):
        p = dict(params)
        kw = dict(ordinal_features=["f"], values_orders={"f": list(names)}) if kind == "ord" else dict(qualitative_features=["f"])
        if cls == "ContinuousCarver":
            p.pop("sort_by", None)
            return ContinuousCarver(copy=True, **kw, **p)
        return BinaryCarver(copy=True, **kw, **p)

    what = ("renaming %s" % mp if rename else "") + (" row permutation %s" % perm if perm != "none" else "")
    a, sa = _fit(ctx, cls, params, X, y, lambda: mk(old))
    b, sb = _fit(ctx, cls, params, X2, y2, lambda: mk(new))
    ctx.require(sa == sb, "C11.category-renaming" if rename else "C11.row-permutation", f"fit {sa} before and {sb} after {what}")
    if a is None:
        return dict(counters={"refused": 1}, sample=dict(kind=kind, sizes=sizes), result=dict(outcome=sa))
    ka, kb = "f" in a.features, "f" in b.features
    kindv = "C11.category-renaming" if rename else "C11.row-permutation"
    ctx.require(ka == kb, kindv, f"feature kept={ka} before, kept={kb} after {what} (y={ycol})")
    part = None
    if ka:
        pa = row_partition(list(a.transform(X)["f"]))
        outb = list(b.transform(X2)["f"])
        back = [None] * n_rows
        for pos_, r_ in enumerate(order):
            back[r_] = outb[pos_]
        pb = row_partition(back)
        ctx.require(pa == pb, kindv, f"row partition {pa} becomes {pb} after {what} (sizes {sizes}, y={ycol})")
        part = pa
    return dict(counters={"ok": 1}, sample=dict(kind=kind, sizes=sizes, y=ycol, kept=ka), result=dict(kept=ka, part=part))


def obligations(tier):
    quick = tier == "quick"
    rows_jobs, mono_jobs, ren_jobs = [], [], []
    for cls in ("BinaryCarver", "ContinuousCarver") if not quick else ("BinaryCarver",):
        kind = "continuous" if cls == "ContinuousCarver" else "binary"
        for n, n_nan in (((3, 0), (3, 1)) if quick else ((3, 0), (3, 1), (4, 0), (4, 1))):
            pats = k_api.ypatterns(kind, n + n_nan)
            cap = 4 if quick else 10
            if len(pats) > cap:
                step = len(pats) / cap
                pats = [pats[int(i * step)] for i in range(cap)]
            grid = [dict(min_freq=0.34, sort_by="cramerv", max_n_mod=3, output_dtype="float", dropna=True)] + ([] if quick else [dict(min_freq=0.5, sort_by="tschuprowt", max_n_mod=2, output_dtype="str", dropna=False)])
            for params in grid:
                for ypat in pats:
                    for relabel in (("offset", "str") if quick else ("offset", "shuffled", "str", "same")):
                        rows_jobs.append(dict(cls=cls, n=n, n_nan=n_nan, ypat=ypat, params=params, relabel=relabel))
                    for enc in ("free", "offset", "tiny"):
                        mono_jobs.append(dict(cls=cls, n=n, n_nan=n_nan, ypat=ypat, params=params, encoding=enc))
    for cls in ("BinaryCarver",) + (() if quick else ("ContinuousCarver",)):
        for kind in RENAMES:
            for sizes in ([(3, 3, 2)] if quick else [(3, 3, 2), (2, 2, 2, 2), (4, 1, 3)]):
                ren_jobs.append(dict(cls=cls, kind=kind, sizes=sizes, params=dict(min_freq=0.2, sort_by="cramerv", max_n_mod=3, output_dtype="str", dropna=True)))
                for perm in (("reverse", "interleave") if quick else ("reverse", "interleave", "rotate")):
                    if kind not in ("qual_case", "qual_float"):
                        ren_jobs.append(dict(cls=cls, kind=kind, sizes=sizes, params=dict(min_freq=0.2, sort_by="cramerv", max_n_mod=3 if perm != "interleave" else 2, output_dtype="str", dropna=True), perm=perm, rename=False))
    return [
        k_quantiles.obligation(tier, {"C11"}, "O11.1a find_quantiles: every row falls in the same bucket after any strictly increasing re-encoding; boundaries do not depend on row order", ["iso", "perm"]),
        Obligation(name="O11.1b complete fit: same kept features and same induced row partition after any strictly increasing re-encoding of a quantitative feature",
                   harness=h_monotone, jobs=mono_jobs, encodes=k_api.ENC_COMMON + k_api.ENC_CARVER, rebindings=k_api.RB,
                   bounds=f"n=3{'' if quick else '-4'} symbolic rows (+0/1 NaN) and an order-isomorphic second column (relational assumption): any reals, or exactly representable images under a large offset (2^20 + k/1024) / a tiny unit (k*2^-40); binary / continuous targets", twin_every=2, budget_s=6.0),
        Obligation(name="O11.3 complete fit: same kept features and row partition after a solver-chosen row permutation with index relabelling (offset, shuffled ints, strings)",
                   harness=h_rows, jobs=rows_jobs, encodes=k_api.ENC_COMMON + k_api.ENC_CARVER, rebindings=k_api.RB,
                   bounds=f"n=3{'' if quick else '-4'} symbolic rows (+0/1 NaN): all permutations (N<=3) or reversal/rotations/transposition", twin_every=7, budget_s=6.0),
        Obligation(name="O11.2 complete fit on a qualitative / ordinal feature: same kept features and row partition after an order-preserving renaming of the categories, and after row permutations (target-rate ties reachable)",
                   harness=h_rename, jobs=ren_jobs, encodes=["QualitativeDiscretizer.fit", "CategoricalDiscretizer.fit", "OrdinalDiscretizer.fit", "StringDiscretizer.fit"] + k_api.ENC_CARVER,
                   bounds="3-4 categories with concrete sizes, positives per category solver-chosen; categorical (two name sets) and ordinal (non-alphabetical ranking) features", twin_every=5, budget_s=6.0),
    ]


ASSUMPTIONS = ["affine maps a*x+b (a>0) are covered through their order isomorphism; the rounding of a*x+b itself is outside the claim"]
