"""C12 — MulticlassCarver equals one-vs-rest BinaryCarvers."""
from __future__ import annotations

import itertools

import numpy as np
import pandas as pd

from harness import k_api, xh
from harness.k_api import col_equal, feature_column, frame_unchanged, snapshot_frame
from symx import Obligation, Violation
from symx.rebind import rebound

CLASS_LABELS = {
    "int": [0, 1, 2],
    "str": ["b", "c", "a"],  # sorted order differs from order of appearance
    "int_strsort": [10, 9, 2],  # string sort ('10' < '2' < '9') differs from numeric sort
}


def h_multi(ctx, n, n_nan, ypat, labels, params, with_dev):
    try:
        return _h_multi(ctx, n, n_nan, ypat, labels, params, with_dev)
    except Violation as v:
        v.extra = dict(v.extra or {}, min_freq_mod_given=("min_freq_mod" in params))
        raise


def _h_multi(ctx, n, n_nan, ypat, labels, params, with_dev):
    from AutoCarver import BinaryCarver, MulticlassCarver

    X, xs = k_api.make_X(ctx, n, n_nan, companions=False)
    N = n + n_nan
    lab = CLASS_LABELS[labels]
    y = pd.Series([lab[c] for c in ypat][:N], index=X.index)
    fit_kw = {}
    if with_dev:
        X_dev = X.iloc[::-1].copy()
        X_dev.index = [1000 + i for i in range(N)]
        y_dev = pd.Series(list(y)[::-1], index=X_dev.index)
        fit_kw = dict(X_dev=X_dev, y_dev=y_dev)
        snap_dev = snapshot_frame(X_dev)
    snapX = snapshot_frame(X)
    with rebound(ctx, ["R1", "R2"]):
        mc = MulticlassCarver(quantitative_features=["f"], copy=True, **params)
        try:
            mc.fit(X, y, **fit_kw)
            mc_ok = True
        except Violation:
            raise
        except AssertionError as e:
            mc_ok, mc_msg = False, str(e)
        except Exception as e:
            import traceback
            ctx.require(False, "C08.internal-error", f"MulticlassCarver.fit raised {type(e).__name__}: {str(e)[:150]} | {traceback.format_exc(limit=-2)[-300:]}")
        classes = sorted(set(str(v) for v in y))
        expected = {}
        bc_fail = None
        for ci in classes[1:]:
            yi = (y.astype(str) == ci).astype(int)
            kw = {}
            if with_dev:
                kw = dict(X_dev=X_dev, y_dev=(y_dev.astype(str) == ci).astype(int))
            bc = BinaryCarver(quantitative_features=["f"], copy=True, **params)
            try:
                bc.fit(X, yi, **kw)
            except AssertionError as e:
                bc_fail = str(e)
                break
            expected[ci] = list(bc.transform(X)["f"]) if "f" in bc.features else None
        if not mc_ok:
            ctx.require(bc_fail is not None, "C12.multiclass-refuses-what-binary-accepts", f"MulticlassCarver.fit refused ({mc_msg[:100]}) a sample every one-vs-rest BinaryCarver accepts")
            return dict(counters={"assertion": 1}, sample=dict(ypat=ypat, outcome="AssertionError"), result=dict(outcome="AssertionError"))
        ctx.require(bc_fail is None, "C12.multiclass-accepts-what-binary-refuses", f"a one-vs-rest BinaryCarver refused the sample: {bc_fail}")
        out = mc.transform(X)
        ctx.require(frame_unchanged(X, snapX), "C07.input-mutated", "MulticlassCarver modified the caller's X")
        if with_dev:
            ctx.require(frame_unchanged(X_dev, snap_dev), "C07.input-mutated", "MulticlassCarver modified the caller's X_dev")
        ctx.require("f" in out.columns, "C12.raw-column-changed", f"raw feature column 'f' is missing from the output (columns {list(out.columns)}, kept {sorted(mc.features)})")
        ctx.require(col_equal(list(out["f"]), list(X["f"])), "C12.raw-column-changed", "raw feature column not returned unchanged")
        exp_cols = ["f"] + [f"f_{ci}" for ci in classes[1:] if expected[ci] is not None]
        ctx.require(sorted(out.columns) == sorted(exp_cols), "C12.columns", f"output columns {sorted(out.columns)} != expected {sorted(exp_cols)} (classes {classes}, first one skipped)")
        ctx.require(sorted(mc.features) == sorted(exp_cols[1:]), "C12.features", f"features {sorted(mc.features)} != {sorted(exp_cols[1:])}")
        for ci in classes[1:]:
            if expected[ci] is None:
                continue
            got = list(out[f"f_{ci}"])
            ctx.require(col_equal(got, expected[ci]), "C12.differs-from-binary-carver",
                        f"column f_{ci} = {got!r} but BinaryCarver(same parameters) on 1[y={ci}] gives {expected[ci]!r}")
        # a frame that already holds columns named like the generated ones (an earlier output, or an unrelated column
        # that happens to be called f_<class>): the generated columns are still computed from the raw feature
        kept_ci = [ci for ci in classes[1:] if expected[ci] is not None]
        if kept_ci:
            X2 = X.copy()
            for ci in kept_ci:
                X2.insert(0, f"f_{ci}", list(X["f"])[::-1])
            out2 = mc.transform(X2)
            out3 = mc.transform(out.copy())
            for what, o in (("pre-existing (stale) columns", out2), ("an already transformed frame", out3)):
                ctx.require("f" in o.columns and col_equal(list(o["f"]), list(X["f"])), "C12.raw-column-changed", f"transform of a frame with {what}: raw feature column not returned unchanged")
                for ci in kept_ci:
                    ctx.require(f"f_{ci}" in o.columns and not isinstance(o[f"f_{ci}"], pd.DataFrame), "C12.columns", f"transform of a frame with {what}: column f_{ci} missing or duplicated ({list(o.columns)})")
                    got = list(o[f"f_{ci}"])
                    ctx.require(col_equal(got, expected[ci]), "C12.differs-from-binary-carver",
                                f"transform of a frame with {what}: column f_{ci} = {got!r} but BinaryCarver(same parameters) on 1[y={ci}] gives {expected[ci]!r}")
        # C07 on the multiclass code path (its own _cast_features / per-class transform): repeated, subset / reordered and
        # fit_transform outputs agree with the first output
        gen = [c for c in out.columns if c != "f"]
        again = mc.transform(X)
        for c in gen:
            ctx.require(col_equal(list(again[c]), list(out[c])), "C07.repeat-transform", f"MulticlassCarver: second transform of the same frame differs on {c}")
        rev = mc.transform(X.iloc[::-1])
        ctx.require(list(rev.index) == list(X.index)[::-1], "C07.index-columns", "MulticlassCarver: output index differs from the frame's index")
        one = mc.transform(X.iloc[[0]])
        for c in gen:
            ctx.require(col_equal(list(rev[c])[::-1], list(out[c])), "C07.row-purity", f"MulticlassCarver: transforming the rows in reverse order changes their labels on {c}")
            ctx.require(col_equal(list(one[c]), list(out[c])[:1]), "C07.row-purity", f"MulticlassCarver: the first row alone is labelled {list(one[c])!r} on {c}, {list(out[c])[:1]!r} inside the full frame")
        mc2 = MulticlassCarver(quantitative_features=["f"], copy=True, **params)
        out_ft = mc2.fit_transform(X, y, **fit_kw)
        ctx.require(sorted(out_ft.columns) == sorted(out.columns), "C07.fit-transform-differs", f"MulticlassCarver.fit_transform columns {sorted(out_ft.columns)} != fit+transform {sorted(out.columns)}")
        for c in gen:
            ctx.require(col_equal(list(out_ft[c]), list(out[c])), "C07.fit-transform-differs", f"MulticlassCarver.fit_transform differs from fit+transform on {c}")
    return dict(counters={"ok": 1}, sample=dict(ypat=ypat, labels=labels, cols=list(out.columns)), result=dict(cols=sorted(out.columns)))


def h_multi_ord(ctx, sizes, params):
    """Ordinal and categorical features through MulticlassCarver: per level the numbers of rows of class 1
    and of class 2 are solver-chosen (the rest is class 0), so that a feature can be dropped for one class
    and kept for another."""
    from AutoCarver import BinaryCarver, MulticlassCarver

    levels = ["L", "M", "H", "X"][: len(sizes)]  # ranking L < M < H < X (not alphabetical)
    col, ycol = [], []
    for lv, sz in zip(levels, sizes):
        c1 = ctx.choose(f"c1_{lv}", sz + 1)
        c2 = ctx.choose(f"c2_{lv}", sz - c1 + 1)
        col += [lv] * sz
        ycol += [1] * c1 + [2] * c2 + [0] * (sz - c1 - c2)
    if len(set(ycol)) < 3:
        from symx import Infeasible
        raise Infeasible()
    X = pd.DataFrame({"o": pd.Series(col, dtype=object), "q": pd.Series(col, dtype=object)})
    y = pd.Series(ycol)
    ranking = list(levels)
    user_ordinal = ["o"]
    kw = dict(ordinal_features=user_ordinal, values_orders={"o": list(ranking)}, qualitative_features=["q"], copy=True, **params)
    mc = MulticlassCarver(**kw)
    try:
        mc.fit(X, y)
    except AssertionError as e:
        return dict(counters={"assertion": 1}, sample=dict(y=ycol, outcome="AssertionError"), result=dict(outcome="AssertionError"))
    except Violation:
        raise
    except Exception as e:
        ctx.require(False, "C08.internal-error", f"MulticlassCarver.fit raised {type(e).__name__}: {str(e)[:150]} (y={ycol})")
    ctx.require(user_ordinal == ["o"], "C07.input-mutated", f"the caller's ordinal_features list was modified: {user_ordinal}")
    out = mc.transform(X)
    exp_cols = ["o", "q"]
    for ci in ("1", "2"):
        yi = (y.astype(str) == ci).astype(int)
        bc = BinaryCarver(ordinal_features=["o"], values_orders={"o": list(ranking)}, qualitative_features=["q"], copy=True, **params)
        bc.fit(X, yi)
        outb = bc.transform(X)
        for ft in ("o", "q"):
            name = f"{ft}_{ci}"
            if ft in bc.features:
                exp_cols.append(name)
                ctx.require(name in out.columns, "C12.columns", f"column {name} missing although BinaryCarver keeps {ft} for class {ci} (columns {sorted(out.columns)})")
                ctx.require(list(out[name]) == list(outb[ft]), "C12.differs-from-binary-carver",
                            f"column {name} = {list(out[name])} but BinaryCarver(same parameters) on 1[y={ci}] gives {list(outb[ft])} (levels {col}, y={ycol})")
                ctx.require(dict(mc.values_orders[name].content) == dict(bc.values_orders[ft].content), "C12.differs-from-binary-carver",
                            f"{name}: groups {dict(mc.values_orders[name].content)} differ from the BinaryCarver's {dict(bc.values_orders[ft].content)}")
    ctx.require(sorted(out.columns) == sorted(exp_cols), "C12.columns", f"output columns {sorted(out.columns)} != expected {sorted(exp_cols)}")
    ctx.require(list(out["o"]) == col and list(out["q"]) == col, "C12.raw-column-changed", "raw feature columns not returned unchanged")
    return dict(counters={"ok": 1}, sample=dict(y=ycol, cols=sorted(out.columns)), result=dict(cols=sorted(out.columns)))


def casted_name_api_witness():
    """API-level confirmation of the naming collision found by CrossHair: raw features 'a' and 'a_1',
    classes 0/1/2: the generated column 'a_1' (feature a, class 1) overwrites the raw column 'a_1'."""
    from AutoCarver import MulticlassCarver

    rng = np.random.default_rng(0)
    n = 300
    y = pd.Series(rng.integers(0, 3, n))
    X = pd.DataFrame({"a": y * 1.0 + rng.normal(size=n), "a_1": rng.normal(size=n) * 5 + (y == 2) * 3})
    mc = MulticlassCarver(sort_by="cramerv", min_freq=0.1, quantitative_features=["a", "a_1"], max_n_mod=3, copy=True)
    out = mc.fit_transform(X, y)
    return not bool((out["a_1"] == X["a_1"]).all()), sorted(out.columns)


def post(tier):
    res = dict(name="O12.2 generated column names f_ci are injective and never equal to a raw feature (CrossHair on the real append_class; API-level replay)",
               ok=False, states=0, queries=0, solver_s=0.0, twin=0, violations=[], errors=[], samples=[])
    try:
        results, wall, rc, tail = xh.run_file(xh.VERIF + "/crosshair/c12_naming.py", 20 if tier == "quick" else 60)
    except Exception as e:
        res["errors"].append(f"crosshair failed: {type(e).__name__}: {e}")
        return [res]
    res["solver_s"] = round(wall, 2)
    by = {r["fn"]: r for r in results}
    res["states"] = len(results)
    res["queries"] = len(results)
    res["crosshair"] = {k: v["verdict"] for k, v in by.items()}
    reach = by.get("_append_class_injective_reach")
    if reach is None or reach["verdict"] != "refuted":
        res["errors"].append("vacuity guard: the reachability twin (post: False) was not refuted by CrossHair")
    for fn in ("_append_class_injective", "_casted_name_differs_from_raw_feature"):
        r = by.get(fn)
        if r is None or r["verdict"] == "unknown":
            res["errors"].append(f"CrossHair inconclusive on {fn}: {r and r['msg']}")
            continue
        if r["verdict"] == "refuted":
            # replay on the real function, then at API level
            from AutoCarver.carvers.multiclass_carver import append_class

            args = r["args"]
            reproduced = False
            if args is not None:
                if fn == "_append_class_injective":
                    reproduced = append_class(args[0], args[1]) == append_class(args[2], args[3]) and (args[0], args[1]) != (args[2], args[3])
                else:
                    reproduced = append_class(args[0], args[1]) == args[2] and args[0] != args[2]
            res["twin"] += 1
            api, cols = casted_name_api_witness()
            res["samples"].append(dict(fn=fn, counterexample=[repr(a) for a in (args or ())], api_level_raw_column_overwritten=api, api_columns=cols))
            if reproduced and api:
                res["violations"].append(dict(
                    ob=res["name"], kind="C12.casted-name-collision", reproduced=True,
                    message=f"append_class is not injective / can equal a raw feature name: CrossHair counterexample {fn}{tuple(args)!r}; API level: features ['a','a_1'] with classes 0,1,2 -> the generated column 'a_1' overwrites the raw column 'a_1'",
                    model=dict(args=[repr(a) for a in args]), raw_model=dict(args=repr(args)), job=dict(obligation="O12.2", fn=fn), extra=dict(fn=fn),
                ))
            elif not reproduced:
                res["errors"].append(f"CrossHair counterexample for {fn} did not reproduce on the real append_class: {args!r}")
    safe = by.get("_separator_free_names_are_safe")
    res["restricted_claim"] = "names are unique when class labels contain no '_' and feature names have equal length: " + (safe["verdict"] if safe else "missing")
    if safe is None or safe["verdict"] != "confirmed":
        res["errors"].append(f"restricted injectivity claim not confirmed by CrossHair: {safe}")
    res["ok"] = not res["errors"] and not res["violations"]
    return [res]


def obligations(tier):
    quick = tier == "quick"
    jobs = []
    grid = [dict(min_freq=0.5, sort_by="cramerv", max_n_mod=2, output_dtype="float", dropna=True),
            dict(min_freq=0.25, sort_by="tschuprowt", max_n_mod=3, output_dtype="str", dropna=True, min_freq_mod=0.25)]
    if not quick:
        grid += [dict(min_freq=0.25, sort_by="cramerv", max_n_mod=3, output_dtype="float", dropna=False),
                 dict(min_freq=0.34, sort_by="cramerv", max_n_mod=2, output_dtype="float", dropna=True, min_freq_mod=0.34)]
    for n in ([4] if quick else [4, 5]):
        for n_nan in (0, 1):
            pats = k_api.ypatterns("multiclass", n + n_nan)
            cap = 5 if quick else 16
            step = len(pats) / cap
            pats = [pats[int(i * step)] for i in range(cap)]
            for params in grid:
                if n_nan == 0 and params.get("dropna") is False:
                    continue
                for labels, with_dev in (("int", False), ("str", True), ("int_strsort", False)) if quick else itertools.product(CLASS_LABELS, (False, True)):
                    for ypat in pats:
                        jobs.append(dict(n=n, n_nan=n_nan, ypat=ypat, labels=labels, params=params, with_dev=with_dev))
    ord_jobs = [dict(sizes=sz, params=dict(min_freq=0.2, sort_by="cramerv", max_n_mod=3, output_dtype="str", dropna=True)) for sz in ([(3, 3, 3)] if quick else [(3, 3, 3), (2, 3, 2, 2)])]
    return [
        Obligation(
            name="O12.3 ordinal and categorical features: every o_ci / q_ci column and grouping equals the BinaryCarver's on 1[y=ci] (solver-chosen class counts per level: features dropped for one class and kept for another)",
            harness=h_multi_ord, jobs=ord_jobs, encodes=["MulticlassCarver.fit", "BaseCarver.__init__/_remove_feature", "QualitativeDiscretizer.fit", "OrdinalDiscretizer.fit", "CategoricalDiscretizer.fit"],
            bounds="one ordinal (non-alphabetical ranking) and one categorical feature with 3-4 levels of 2-3 rows; numbers of class-1 and class-2 rows per level solver-chosen", twin_every=7, budget_s=6.0,
        ),
        Obligation(
            name="O12.1 every f_ci column equals BinaryCarver(same parameters) on 1[y=ci]; kept iff that carver keeps f; classes in string-sorted order, first skipped; raw column unchanged",
            harness=h_multi, jobs=jobs, encodes=k_api.ENC_COMMON + k_api.ENC_CARVER + ["MulticlassCarver._prepare_data/fit", "multiclass_carver.append_class/dict_append_class", "BaseDiscretizer._cast_features"],
            rebindings=k_api.RB,
            bounds=f"symbolic quantitative column n={4 if quick else '4-5'} (+0/1 NaN row), {5 if quick else 16} surjective class patterns onto 3 classes, int / str / string-sort-differs labels, optional dev frame, "
                   f"{len(grid)} parameter sets (one with an explicit min_freq_mod)",
            outside="more than 3 classes, more than 5 rows, qualitative features",
            twin_every=9, budget_s=6.0,
        )
    ]


def obligation_c07(tier):
    """The multiclass harness as an obligation of C07 (reduced job list)."""
    full = obligations(tier)[1]
    step = max(1, len(full.jobs) // (12 if tier == "quick" else 48))
    return Obligation(name="O7.4 MulticlassCarver: fit_transform == fit+transform, repeated / reordered / single-row transforms agree, inputs untouched (own casting and per-class transform code path)",
                      harness=h_multi, jobs=full.jobs[::step], encodes=full.encodes, rebindings=full.rebindings, bounds=full.bounds + "; every %d-th job of O12.1" % step,
                      outside=full.outside, twin_every=5, budget_s=6.0)


ASSUMPTIONS = ["dev frame = the training rows reversed (same distribution)"]
