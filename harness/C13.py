"""C13 — GroupedList stays a consistent ordered partition under any history.

O13.1 step lemma: arbitrary pre-state satisfying the invariant (within a shape bound), one real
operation with unconstrained symbolic arguments, post-state compared with a reference model
(ordered list of (leader, members)) and the invariant re-proved.  One inductive step from any
valid state covers histories of every length.
O13.2 short histories from the constructors (cross-check that the invariant is reachable and that
copies do not alias).
"""
from __future__ import annotations

import itertools

from harness.common import contains, eqv, index_of, neq, req_eq_seq
from symx import Obligation, Violation
from symx.rebind import rebound

ENC = [
    "GroupedList.__init__", "GroupedList.get", "GroupedList.group", "GroupedList.group_list", "GroupedList.append",
    "GroupedList.update", "GroupedList.sort", "GroupedList.sort_by", "GroupedList.remove", "GroupedList.pop",
    "GroupedList.get_group", "GroupedList.values", "GroupedList.contains", "GroupedList.replace_group_leader",
    "grouped_list.is_equal",
]
REFUSED = (AssertionError, ValueError, KeyError, IndexError)
import numpy as _np

NANF = _np.nan  # the float missing-value sentinel (one object, as numpy.nan / pandas produce it)


# ----------------------------------------------------------------------------- reference model
class Ref:
    """Plain reference model: ordered list of [leader, members]."""

    def __init__(self, groups):
        self.groups = [[l, list(m)] for l, m in groups]

    def copy(self):
        return Ref(self.groups)

    def leaders(self):
        return [g[0] for g in self.groups]

    def all_values(self):
        return [v for g in self.groups for v in g[1]]

    def leader_idx(self, v):
        return index_of(self.leaders(), v)

    def group_of(self, v):
        for l, m in self.groups:
            if contains(m, v):
                return l
        return None


def build_state(ctx, shape, kinds, leader_pos, content_rev):
    """An arbitrary GroupedList state satisfying the invariant, built without the code under test.
    shape: group sizes; kinds: per slot 'i' (symbolic int), 'r' (symbolic real) or a concrete str."""
    from AutoCarver.discretizers import GroupedList

    vals, syms = [], []
    for n, k in enumerate(kinds):
        if k == "i":
            v = ctx.int(f"v{n}")
            syms.append(v)
        elif k == "r":
            v = ctx.real(f"v{n}")
            syms.append(v)
        elif k == "NANF":
            v = NANF
        else:
            v = k
        vals.append(v)
    for a, b in itertools.combinations(syms, 2):
        ctx.assume(a != b)
    groups, k = [], 0
    for gi, s in enumerate(shape):
        members = vals[k : k + s]
        k += s
        groups.append([members[leader_pos[gi] % s], members])
    gl = GroupedList([])
    list.extend(gl, [g[0] for g in groups])
    items = [(g[0], list(g[1])) for g in groups]
    gl.content = dict(reversed(items) if content_rev else items)
    return gl, Ref(groups)


def check_invariant(ctx, gl, tag):
    keys = list(gl)
    K = "C13.invariant"
    for a, b in itertools.combinations(keys, 2):
        ctx.require(neq(a, b), K, f"{tag}: duplicate list element {a!r}")
    ckeys = list(gl.content.keys())
    ctx.require(len(ckeys) == len(keys), K, f"{tag}: list {keys!r} vs content keys {ckeys!r}")
    for k in keys:
        ctx.require(contains(ckeys, k), K, f"{tag}: list element {k!r} is not a key of content")
        ctx.require(contains(gl.content[k], k), K, f"{tag}: leader {k!r} not in its own group {gl.content[k]!r}")
    allv = [v for k in ckeys for v in gl.content[k]]
    for a, b in itertools.combinations(allv, 2):
        ctx.require(neq(a, b), K, f"{tag}: value {a!r} present twice")


def check_agrees(ctx, gl, ref, tag):
    """Real state equals the reference model, and the lookup helpers agree with content."""
    K = "C13.refmodel"
    req_eq_seq(ctx, list(gl), ref.leaders(), K, f"{tag}: order")
    for l, members in ref.groups:
        got = gl.content.get(l)
        ctx.require(got is not None, K, f"{tag}: leader {l!r} missing from content")
        req_eq_seq(ctx, got, members, K, f"{tag}: members of {l!r}")
        req_eq_seq(ctx, gl.get(l), members, "C13.lookup", f"{tag}: get({l!r})")
        for v in members:
            g = gl.get_group(v)
            ctx.require(eqv(g, l), "C13.lookup", f"{tag}: get_group({v!r}) returned {g!r}, content says {l!r}")
            ctx.require(bool(gl.contains(v)), "C13.lookup", f"{tag}: contains({v!r}) is False for a member")
    vals = gl.values()
    ctx.require(len(vals) == len(ref.all_values()), "C13.lookup", f"{tag}: values() {vals!r} vs {ref.all_values()!r}")
    for v in ref.all_values():
        ctx.require(contains(vals, v), "C13.lookup", f"{tag}: values() misses {v!r}")


def probe_lookup(ctx, gl, ref, w, tag):
    """A fresh unconstrained value: contains/get_group answer per content."""
    inside = contains(ref.all_values(), w)
    ctx.require(bool(gl.contains(w)) == inside, "C13.lookup", f"{tag}: contains({w!r}) != {inside}")
    g = gl.get_group(w)
    exp = ref.group_of(w) if inside else w
    ctx.require(eqv(g, exp), "C13.lookup", f"{tag}: get_group({w!r}) returned {g!r}, expected {exp!r}")


def snapshot(gl):
    return list(gl), [(k, list(v)) for k, v in gl.content.items()]


def check_unchanged(ctx, gl, snap, tag):
    order, content = snap
    req_eq_seq(ctx, list(gl), order, "C13.refused-op-mutated", f"{tag}: order changed by a refused/readonly operation")
    items = list(gl.content.items())
    ctx.require(len(items) == len(content), "C13.refused-op-mutated", f"{tag}: content changed")
    for (k1, v1), (k2, v2) in zip(items, content):
        ctx.require(eqv(k1, k2), "C13.refused-op-mutated", f"{tag}: content key changed")
        req_eq_seq(ctx, v1, v2, "C13.refused-op-mutated", f"{tag}: members of {k2!r} changed")


def arg(ctx, name, kind):
    if kind == "i":
        return ctx.int(name)
    if kind == "r":
        return ctx.real(name)
    if kind == "NANF":
        return NANF
    return kind


# ----------------------------------------------------------------------------- step lemma
def h_step(ctx, shape, kinds, leader_pos, content_rev, op, argkinds):
    try:
        return _h_step(ctx, shape, kinds, leader_pos, content_rev, op, argkinds)
    except Violation as v:
        v.extra = dict(v.extra or {}, op=op)
        raise


def _h_step(ctx, shape, kinds, leader_pos, content_rev, op, argkinds):
    from AutoCarver.discretizers import GroupedList

    gl, ref = build_state(ctx, shape, kinds, leader_pos, content_rev)
    check_invariant(ctx, gl, "pre")
    snap = snapshot(gl)
    a = arg(ctx, "a", argkinds[0])
    b = arg(ctx, "b", argkinds[1]) if len(argkinds) > 1 else None
    c = arg(ctx, "c", argkinds[2]) if len(argkinds) > 2 else None
    tag = f"{op}"
    outcome = "ok"
    expected = ref.copy()
    new = None
    try:
        if op == "group":
            # reference
            if bool(eqv(a, b)):
                exp_out = "ok"
            else:
                ia, ib = expected.leader_idx(a), expected.leader_idx(b)
                if ia is None or ib is None:
                    exp_out = "refused"
                else:
                    exp_out = "ok"
                    expected.groups[ib][1] = expected.groups[ia][1] + expected.groups[ib][1]
                    del expected.groups[ia]
            gl.group(a, b)
        elif op == "group_list":
            exp_out = "ok"
            for d in (a, b):
                if bool(eqv(d, c)):
                    continue
                ia, ib = expected.leader_idx(d), expected.leader_idx(c)
                if ia is None or ib is None:
                    exp_out = "refused-partial"
                    break
                expected.groups[ib][1] = expected.groups[ia][1] + expected.groups[ib][1]
                del expected.groups[ia]
            gl.group_list([a, b], c)
        elif op == "append":
            ctx.assume(not contains(expected.all_values(), a), "append: new value not already present")
            expected.groups.append([a, [a]])
            exp_out = "ok"
            gl.append(a)
        elif op == "update_new":
            ctx.assume(not contains(expected.all_values(), a))
            ctx.assume(not contains(expected.all_values(), b))
            ctx.assume(not bool(eqv(a, b)))
            expected.groups.append([a, [b, a]])
            exp_out = "ok"
            gl.update({a: [b, a]})
        elif op == "update_existing":
            i = ctx.choose("gi", len(expected.groups))
            ctx.assume(not contains(expected.all_values(), a))
            l = expected.groups[i][0]
            expected.groups[i][1] = [a] + expected.groups[i][1]
            exp_out = "ok"
            gl.update({l: [a] + list(gl.content[l])})
        elif op == "update_split":
            # a grouped (non-leader) member is promoted to its own group; the payload is a valid partition
            cands = [(gi, mi) for gi, g in enumerate(expected.groups) for mi, v in enumerate(g[1]) if not bool(eqv(v, g[0]))]
            if not cands:
                from symx import Infeasible
                raise Infeasible()
            gi, mi = cands[ctx.choose("which", len(cands))]
            lead, members = expected.groups[gi]
            moved = members[mi]
            rest = [v for k_, v in enumerate(members) if k_ != mi]
            expected.groups[gi][1] = rest
            expected.groups.append([moved, [moved]])
            exp_out = "ok"
            gl.update({lead: list(rest), moved: [moved]})
        elif op == "copy":
            exp_out = "ok"
            new = GroupedList(gl)  # copy of an arbitrary valid state (content-dict order may differ from the list order)
        elif op == "remove":
            ia = expected.leader_idx(a)
            if ia is None:
                exp_out = "refused"
            else:
                exp_out = "ok"
                del expected.groups[ia]
            gl.remove(a)
        elif op == "pop":
            n = len(expected.groups)
            i = ctx.choose("idx", n + 3) - (n + 1)  # -(n+1) .. 1 .. covers out-of-range both sides
            if -n <= i < n:
                exp_out = "ok"
                del expected.groups[i]
            else:
                exp_out = "refused"
            gl.pop(i)
        elif op == "sort":
            strs = sorted([g for g in expected.groups if isinstance(g[0], str)], key=lambda g: g[0])
            nums = [g for g in expected.groups if not isinstance(g[0], str)]
            # insertion sort with symbolic comparisons
            snums = []
            for g in nums:
                pos = 0
                while pos < len(snums) and bool(snums[pos][0] < g[0]):
                    pos += 1
                snums.insert(pos, g)
            expected.groups = strs + snums
            exp_out = "ok"
            new = gl.sort()
        elif op == "sort_by":
            n = len(expected.groups)
            perm = list(itertools.permutations(range(n)))[ctx.choose("perm", _fact(n))]
            ordering = [expected.groups[i][0] for i in perm]
            mode = ctx.choose("mode", 3)
            if mode == 1:
                ordering = ordering + [a]  # possibly unknown value
                exp_out = "ok" if contains(expected.leaders(), a) else "refused"
                # a duplicate of a known leader: documented as valid ordering? it would build a dict
                # with a repeated key, i.e. the same order: accept "ok".
            elif mode == 2 and n > 0:
                ordering = ordering[:-1]
                exp_out = "refused"
            else:
                exp_out = "ok"
            expected.groups = [expected.groups[i] for i in perm]
            new = gl.sort_by(ordering)
        elif op == "replace_group_leader":
            ia = expected.leader_idx(a)
            if ia is None:
                exp_out = "refused"
            elif not contains(expected.groups[ia][1], b):
                exp_out = "refused"
            else:
                exp_out = "ok"
                expected.groups[ia][0] = b
            gl.replace_group_leader(a, b)
        elif op == "lookup":
            exp_out = "ok"
            probe_lookup(ctx, gl, ref, a, "lookup")
        else:
            raise RuntimeError(op)
    except REFUSED as e:
        outcome = "refused"
        if exp_out == "refused-partial":
            # group_list refused midway: earlier groupings were legitimately applied; the state must
            # still satisfy the invariant and nothing may be lost
            check_invariant(ctx, gl, tag + ":after partial refusal")
            for v in ref.all_values():
                ctx.require(bool(gl.contains(v)), "C13.value-lost", f"{tag}: value {v!r} disappeared")
            return dict(counters={"refused": 1}, sample=dict(op=op, outcome="refused-partial"))
        ctx.require(exp_out == "refused", "C13.valid-op-refused", f"{tag}({a!r},{b!r}) raised {type(e).__name__}: {e} but the reference model accepts it")
        check_unchanged(ctx, gl, snap, tag)
        check_invariant(ctx, gl, tag + ":after refusal")
        return dict(counters={"refused": 1}, sample=dict(op=op, outcome="refused", a=a, b=b))
    ctx.require(exp_out == "ok", "C13.invalid-op-accepted", f"{tag}({a!r},{b!r}) accepted but the reference model refuses it")
    if new is not None:  # sort / sort_by return a new object and leave self alone
        check_unchanged(ctx, gl, snap, tag + ":self")
        target = new
    else:
        target = gl
    check_invariant(ctx, target, tag + ":post")
    check_agrees(ctx, target, expected, tag + ":post")
    if op not in ("remove", "pop"):
        for v in ref.all_values():
            ctx.require(bool(target.contains(v)), "C13.value-lost", f"{tag}: value {v!r} disappeared")
    w = arg(ctx, "w", "i")
    probe_lookup(ctx, target, expected, w, tag + ":post")
    if new is not None:
        # two-object history: operating on the derived list (copy / sort / sort_by) leaves the list it was derived from alone
        leaders = expected.leaders()
        try:
            if len(leaders) >= 2:
                new.group(leaders[0], leaders[1])
            new.append("zz_fresh")
        except REFUSED:
            pass
        check_unchanged(ctx, gl, snap, tag + ": source after operating on the derived list")
        check_invariant(ctx, gl, tag + ": source after operating on the derived list")
    return dict(
        counters={"ok": 1},
        sample=dict(op=op, a=a, b=b, pre=[list(x) for x in [snap[0]]], post=list(target)),
        result=dict(order=list(target), content=[(k, list(v)) for k, v in target.content.items()]),
    )


def _fact(n):
    r = 1
    for i in range(2, n + 1):
        r *= i
    return r


# ----------------------------------------------------------------------------- constructors + short histories
def h_ctor(ctx, mode, n, kinds):
    from AutoCarver.discretizers import GroupedList
    import numpy as np

    vals = [arg(ctx, f"v{i}", k) for i, k in enumerate(kinds[:n])]
    for x, y in itertools.combinations(vals, 2):
        ctx.assume(not bool(eqv(x, y)))
    if mode == "list":
        gl = GroupedList(list(vals))
        ref = Ref([[v, [v]] for v in vals])
    elif mode == "array":
        gl = GroupedList(np.array(vals, dtype=object))
        ref = Ref([[v, [v]] for v in vals])
    elif mode == "dict":
        # solver-chosen valid dict: every value either leads its own group or is a member of an
        # earlier/later leader's group (then its own entry, if any, is empty)
        assign = [ctx.choose(f"g{i}", n) for i in range(n)]
        for i in range(n):
            ctx.assume(assign[assign[i]] == assign[i])  # leaders point to themselves
        keep_empty = [ctx.choose(f"e{i}", 2) for i in range(n)]
        self_listed = [ctx.choose(f"s{i}", 2) for i in range(n)]
        d, groups = {}, []
        for i in range(n):
            if assign[i] == i:
                members = [vals[j] for j in range(n) if assign[j] == i and j != i]
                if self_listed[i]:
                    members = members + [vals[i]]
                d[vals[i]] = members
                groups.append([vals[i], members if self_listed[i] else members + [vals[i]]])
            elif keep_empty[i]:
                d[vals[i]] = []
        d_snap = [(k, list(v)) for k, v in d.items()]
        gl = GroupedList(d)
        ref = Ref(groups)
        # the caller's dict is not modified by the constructor, nor later through the list built from it
        probe = GroupedList(d)
        lead = list(probe)
        try:
            if len(lead) >= 2:
                probe.group(lead[0], lead[1])
            probe.append("zz_fresh")
        except REFUSED:
            pass
        now = [(k, list(v)) for k, v in d.items()]
        ctx.require(len(now) == len(d_snap), "C13.refused-op-mutated", "ctor:dict: the caller's dict changed")
        for (k1, v1), (k2, v2) in zip(now, d_snap):
            req_eq_seq(ctx, v1, v2, "C13.refused-op-mutated", f"ctor:dict: the caller's list for {k2!r} changed when the list built from it was edited")
    elif mode == "copy":
        src = GroupedList(list(vals))
        if n >= 2:
            src.group(vals[0], vals[1])
        gl = GroupedList(src)
        ref = Ref([[vals[1], [vals[0], vals[1]]]] + [[v, [v]] for v in vals[2:]]) if n >= 2 else Ref([[v, [v]] for v in vals])
        # operating on the copy must not affect the source (no aliasing)
        snap = snapshot(src)
        if n >= 3:
            gl.group(vals[2], vals[1])
            ref.groups[0][1] = [vals[2]] + ref.groups[0][1]
            del ref.groups[1]
        gl.append("zz")
        ref.groups.append(["zz", ["zz"]])
        check_unchanged(ctx, src, snap, "copy: source after operating on the copy")
    check_invariant(ctx, gl, f"ctor:{mode}")
    check_agrees(ctx, gl, ref, f"ctor:{mode}")
    return dict(counters={"ok": 1}, sample=dict(mode=mode, vals=vals, order=list(gl)),
                result=dict(order=list(gl), content=[(k, list(v)) for k, v in gl.content.items()]))


OPS2 = ["group", "append", "remove", "replace_group_leader", "sort", "copy"]


def h_history(ctx, n, kinds, ops):
    """Short histories from the list constructor; arguments solver-chosen among present values/new."""
    from AutoCarver.discretizers import GroupedList

    vals = [arg(ctx, f"v{i}", k) for i, k in enumerate(kinds[:n])]
    for x, y in itertools.combinations(vals, 2):
        ctx.assume(not bool(eqv(x, y)))
    gl = GroupedList(list(vals))
    ref = Ref([[v, [v]] for v in vals])
    universe = list(vals)
    left_behind = []
    for step, op in enumerate(ops):
        snap = snapshot(gl)
        try:
            if op == "group":
                a = universe[ctx.choose(f"a{step}", len(universe))]
                b = universe[ctx.choose(f"b{step}", len(universe))]
                if not bool(eqv(a, b)):
                    ia, ib = ref.leader_idx(a), ref.leader_idx(b)
                    if ia is None or ib is None:
                        exp = "refused"
                    else:
                        exp = "ok"
                        ref.groups[ib][1] = ref.groups[ia][1] + ref.groups[ib][1]
                        del ref.groups[ia]
                else:
                    exp = "ok"
                gl.group(a, b)
            elif op == "append":
                a = arg(ctx, f"n{step}", "i")
                ctx.assume(not contains(ref.all_values(), a))
                ctx.assume(not contains(universe, a))
                universe.append(a)
                ref.groups.append([a, [a]])
                exp = "ok"
                gl.append(a)
            elif op == "remove":
                a = universe[ctx.choose(f"a{step}", len(universe))]
                ia = ref.leader_idx(a)
                exp = "ok" if ia is not None else "refused"
                if ia is not None:
                    del ref.groups[ia]
                gl.remove(a)
            elif op == "replace_group_leader":
                a = universe[ctx.choose(f"a{step}", len(universe))]
                b = universe[ctx.choose(f"b{step}", len(universe))]
                ia = ref.leader_idx(a)
                if ia is None or not contains(ref.groups[ia][1], b):
                    exp = "refused"
                else:
                    exp = "ok"
                    ref.groups[ia][0] = b
                gl.replace_group_leader(a, b)
            elif op == "sort":
                strs = sorted([g for g in ref.groups if isinstance(g[0], str)], key=lambda g: g[0])
                snums = []
                for g in [g for g in ref.groups if not isinstance(g[0], str)]:
                    pos = 0
                    while pos < len(snums) and bool(snums[pos][0] < g[0]):
                        pos += 1
                    snums.insert(pos, g)
                ref.groups = strs + snums
                exp = "ok"
                left_behind.append((gl, snap, step))
                gl = gl.sort()
            elif op == "copy":
                exp = "ok"
                left_behind.append((gl, snap, step))
                gl = GroupedList(gl)
        except REFUSED as e:
            ctx.require(exp == "refused", "C13.valid-op-refused", f"history step {step} {op}: {type(e).__name__}: {e}")
            check_unchanged(ctx, gl, snap, f"history step {step} {op}")
            continue
        ctx.require(exp == "ok", "C13.invalid-op-accepted", f"history step {step} {op} accepted, reference refuses")
        check_invariant(ctx, gl, f"history step {step} {op}")
        check_agrees(ctx, gl, ref, f"history step {step} {op}")
    for old_obj, old_snap, st in left_behind:
        check_unchanged(ctx, old_obj, old_snap, f"history: the list left behind by step {st} ({ops[st]}) after later operations on the derived list")
    return dict(counters={"ok": 1}, sample=dict(ops=ops, order=list(gl)),
                result=dict(order=list(gl), content=[(k, list(v)) for k, v in gl.content.items()]))


# ----------------------------------------------------------------------------- obligations
def _shapes(max_groups, max_size, max_total):
    out = []
    for g in range(0, max_groups + 1):
        for sh in itertools.product(range(1, max_size + 1), repeat=g):
            if sum(sh) <= max_total:
                out.append(sh)
    return out


def obligations(tier):
    quick = tier == "quick"
    shapes = _shapes(3, 2, 4) if quick else _shapes(3, 3, 6)
    step_jobs = []
    ops = [
        ("group", ["i", "i"]), ("group", ["__NAN__", "i"]), ("group", ["i", "__NAN__"]),
        ("group_list", ["i", "i", "i"]), ("append", ["i"]), ("append", ["s_new"]),
        ("update_new", ["i", "i"]), ("update_existing", ["i"]), ("update_split", ["i"]), ("copy", ["i"]), ("remove", ["i"]), ("remove", ["__NAN__"]),
        ("pop", ["i"]), ("sort", ["i"]), ("sort_by", ["i"]), ("replace_group_leader", ["i", "i"]),
        ("replace_group_leader", ["__NAN__", "i"]), ("lookup", ["i"]), ("lookup", ["__NAN__"]),
    ]
    ops_nan = [
        ("group", ["NANF", "i"]), ("group", ["i", "NANF"]), ("group", ["NANF", "NANF"]), ("group_list", ["i", "NANF", "NANF"]), ("group_list", ["NANF", "i", "i"]),
        ("remove", ["NANF"]), ("remove", ["i"]), ("lookup", ["NANF"]), ("lookup", ["i"]), ("replace_group_leader", ["NANF", "i"]), ("replace_group_leader", ["i", "NANF"]),
        ("append", ["i"]), ("pop", ["i"]), ("copy", ["i"]), ("update_split", ["i"]), ("sort_by", ["i"]),
    ]
    for sh in shapes:
        total = sum(sh)
        kind_sets = [["i"] * total]
        if total >= 1:
            kind_sets.append(["i"] * (total - 1) + ["__NAN__"])  # sentinel as last member/leader
        if total >= 2:
            kind_sets.append(["a"] + ["i"] * (total - 2) + ["__NAN__"])
            if not quick:
                kind_sets.append(["r"] * total)
        lps = [tuple(0 for _ in sh), tuple(s - 1 for s in sh)] if any(s > 1 for s in sh) else [tuple(0 for _ in sh)]
        if total >= 1:
            # float NaN (numpy.nan) as a member / leader: operations that name it, and operations next to it
            for lp in lps:
                for op, ak in ops_nan:
                    if op == "update_split" and not any(s_ > 1 for s_ in sh):
                        continue
                    step_jobs.append(dict(shape=sh, kinds=["i"] * (total - 1) + ["NANF"], leader_pos=lp, content_rev=False, op=op, argkinds=ak))
        for kinds in kind_sets:
            for lp in lps:
                for crev in ([False, True] if len(sh) > 1 else [False]):
                    for op, ak in ops:
                        if op in ("sort",) and any(k == "r" for k in kinds) and any(k == "i" for k in kinds):
                            continue
                        if op in ("update_existing", "pop", "sort_by") and len(sh) == 0 and op != "pop":
                            continue
                        if op == "update_split" and not any(s_ > 1 for s_ in sh):
                            continue
                        step_jobs.append(dict(shape=sh, kinds=kinds, leader_pos=lp, content_rev=crev, op=op, argkinds=ak))
    ctor_jobs = []
    for n in range(0, 4 if quick else 5):
        for mode in ("list", "array", "dict", "copy"):
            ctor_jobs.append(dict(mode=mode, n=n, kinds=["i"] * n))
            if n >= 1:
                ctor_jobs.append(dict(mode=mode, n=n, kinds=["i"] * (n - 1) + ["__NAN__"]))
    hist_jobs = []
    depth = 2 if quick else 3
    for n in (2, 3):
        for ops_seq in itertools.product(OPS2, repeat=depth):
            hist_jobs.append(dict(n=n, kinds=["i"] * (n - 1) + (["__NAN__"] if n == 3 else ["i"]), ops=list(ops_seq)))
    return [
        Obligation(
            name="O13.1 step lemma (any valid pre-state, one operation, unconstrained symbolic arguments)",
            harness=h_step, jobs=step_jobs, encodes=ENC, rebindings=[],
            bounds=f"pre-state shapes: <=3 groups, <={2 if quick else 3} members each, <={4 if quick else 6} values; members symbolic ints "
                   f"(pairwise distinct), optionally the sentinels '__NAN__' / 'a' / float NaN (numpy.nan); leader first or last in its group; content-dict order equal or reversed; "
                   f"operation arguments unconstrained symbolic ints (or the sentinel)",
            outside="more than 6 values; sort() of a list holding a float NaN (its place among numbers is unspecified); update() with overlapping payloads; invalid appends (value already present)",
            twin_every=5,
        ),
        Obligation(
            name="O13.2a constructors establish the invariant (list, ndarray, dict, copy)",
            harness=h_ctor, jobs=ctor_jobs, encodes=["GroupedList.__init__"],
            bounds="<= %d values; dict case: solver-chosen valid grouping, leader listed or not in own values, grouped keys with empty entries" % (3 if quick else 4),
            twin_every=5,
        ),
        Obligation(
            name="O13.2b short histories from the constructor (reachability cross-check, copy aliasing)",
            harness=h_history, jobs=hist_jobs, encodes=ENC,
            bounds=f"depth {depth} over {OPS2}, 2-3 initial values, arguments solver-chosen among present values",
            twin_every=11,
        ),
    ]


ASSUMPTIONS = [
    "valid operation = the method's own assertions hold, and new keys passed to append/update are not already present (DESIGN C13)",
    "members are ints, reals, strings or the float missing-value sentinel numpy.nan (one object)",
    "CPython list/dict semantics: equal-hash keys are compared with == (SNum.__hash__ is constant)",
]
