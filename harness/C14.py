"""C14 — selectors return the best-ranked, mutually uncorrelated features."""
from harness import k_selectors


def obligations(tier):
    return [k_selectors.obligation_select(tier), k_selectors.obligation_select_multi(tier), k_selectors.obligation_measures(tier)]


def post(tier):
    return [k_selectors.post_multi(tier)]
