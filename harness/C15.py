"""C15 — feature selection is invariant under re-encodings that keep the information."""
from harness import k_selectors


def obligations(tier):
    return k_selectors.obligations_c15(tier)


def post(tier):
    return k_selectors.post_regression_api(tier)
