"""C15 — feature selection is invariant under re-encodings that keep the information."""
from harness import k_selectors


def obligations(tier):
    sel = k_selectors.obligation_select(tier)
    sel.name = "O15.3 selection with symbolic measures (ties reachable): reversing the columns of X leaves the selection unchanged; " + sel.name
    return k_selectors.obligations_c15(tier) + [sel]


def post(tier):
    return k_selectors.post_regression_api(tier)
