"""C16 — summary() and history() truthfully describe the fitted object."""
from harness import k_api, k_qualitative, k_select, k_transform


NAMES = ["size", "size_log", "size_1", "size_10", "log", "1"]  # feature names contained in one another


def h_summary_feature(ctx, n_feats, rot):
    """O16.6: summary(feature) has the rows of that feature only (= the rows summary() gives for it); a name that is not a
    kept feature is refused with AssertionError."""
    import numpy as np

    from AutoCarver.discretizers import GroupedList
    from AutoCarver.discretizers.utils.base_discretizers import BaseDiscretizer
    from symx import Violation

    names = (NAMES[rot:] + NAMES[:rot])[:n_feats]
    vo, dt = {}, {}
    for i, nm in enumerate(names):
        if i % 2 == 0:
            vo[nm] = GroupedList({float(i + 1): [float(i + 1)], float("inf"): [float("inf")]})
            dt[nm] = "float"
        else:
            vo[nm] = GroupedList({"a": ["b", "a"], f"c{i}": [f"c{i}"]})
            dt[nm] = "str"
    d = BaseDiscretizer(list(names), values_orders=vo, input_dtypes=dt, output_dtype="str", str_nan="__NAN__", dropna=True, copy=True, verbose=False)
    d.fit()
    full = d.summary().reset_index().to_dict("records")
    asked = (names + ["size_", "siz", "size_100", "ize"])[ctx.choose("asked", len(names) + 4)]
    try:
        sf = d.summary(asked)
    except AssertionError:
        ctx.require(asked not in names, "C16.summary-missing-feature", f"summary({asked!r}) refused although {asked!r} is a kept feature of {names}")
        return dict(counters={"refused": 1}, sample=dict(names=names, asked=asked))
    except Violation:
        raise
    except Exception as e:
        ctx.require(False, "C16.summary-internal-error", f"summary({asked!r}) raised {type(e).__name__}: {str(e)[:120]}")
    recs = sf.reset_index().to_dict("records")
    ctx.require(asked in names, "C16.summary-other-feature", f"summary({asked!r}) answered with rows of {sorted({r['feature'] for r in recs})} although {asked!r} is not a kept feature of {names}")
    ctx.require(all(r["feature"] == asked for r in recs), "C16.summary-other-feature", f"summary({asked!r}) contains rows of {sorted({r['feature'] for r in recs})} (kept features {names})")
    want = [r for r in full if r["feature"] == asked]
    ctx.require([(r["label"], str(r["content"])) for r in recs] == [(r["label"], str(r["content"])) for r in want], "C16.summary-rows",
                f"summary({asked!r}) rows differ from the rows summary() gives for that feature")
    return dict(counters={"ok": 1}, sample=dict(names=names, asked=asked, rows=len(recs)))


def obligations(tier):
    quick = tier == "quick"
    from symx import Obligation

    from harness import C17

    edited = C17.obligations(tier, prefix="O16.7")  # summary keeps describing what transform does after manual edits (incl. dropna=False objects)
    return edited + [
        Obligation(name="O16.6 summary(feature) holds the rows of that feature only, for feature names contained in one another; unknown names are refused",
                   harness=h_summary_feature, jobs=[dict(n_feats=n, rot=r) for n in (2, 4, 6) for r in (0, 1, 3)], encodes=["BaseDiscretizer.summary"],
                   bounds="2-6 kept features named size, size_log, size_1, size_10, log, 1 (quantitative and qualitative alternating); requested name solver-chosen among the kept names and four near misses",
                   twin_every=1),
        k_api.obligation_qual(tier, {"C16"}, "O16.5 end to end on qualitative and ordinal features: summary partitions the known values and agrees with transform"),
        k_api.obligation(tier, {"C16"}, "O16.4 end to end: summary() lists exactly the kept features; last viable history combination induces the fitted row partition; one raw-distribution entry",
                         ["BinaryCarver", "ContinuousCarver"], ns=[4], max_pats=6 if quick else 14, companions=not quick),
        k_select.obligation(tier, {"C16"}, "O16.1 history: every tested combination with its measure, exactly one flagged viable per search = the fitted grouping, later ones 'Not checked'", "abstract"),
        k_select.obligation_cont(tier, {"C16"}, "O16.1b history of a ContinuousCarver: same flags/ordering obligations"),
        k_transform.obligation(tier, {"C16"}, "O16.2 summary of a quantitative feature: one row per fitted group, NaN shown in the group it was merged into", ms=[2, 3, 4] if tier == "quick" else [2, 3, 4, 5]),
        k_qualitative.obligation(tier, {"C16"}, "O16.3 summary of a qualitative feature: (label, content) rows partition the known values and agree with transform"),
    ]
