"""C16 — summary() and history() truthfully describe the fitted object."""
from harness import k_api, k_qualitative, k_select, k_transform


def obligations(tier):
    quick = tier == "quick"
    return [
        k_api.obligation_qual(tier, {"C16"}, "O16.5 end to end on qualitative and ordinal features: summary partitions the known values and agrees with transform"),
        k_api.obligation(tier, {"C16"}, "O16.4 end to end: summary() lists exactly the kept features; last viable history combination induces the fitted row partition; one raw-distribution entry",
                         ["BinaryCarver", "ContinuousCarver"], ns=[4], max_pats=6 if quick else 14, companions=not quick),
        k_select.obligation(tier, {"C16"}, "O16.1 history: every tested combination with its measure, exactly one flagged viable per search = the fitted grouping, later ones 'Not checked'", "abstract"),
        k_select.obligation_cont(tier, {"C16"}, "O16.1b history of a ContinuousCarver: same flags/ordering obligations"),
        k_transform.obligation(tier, {"C16"}, "O16.2 summary of a quantitative feature: one row per fitted group, NaN shown in the group it was merged into", ms=[2, 3, 4] if tier == "quick" else [2, 3, 4, 5]),
        k_qualitative.obligation(tier, {"C16"}, "O16.3 summary of a qualitative feature: (label, content) rows partition the known values and agree with transform"),
    ]
