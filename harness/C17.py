"""C17 — manual edits through update_discretizer are applied coherently.

Fitted objects are built directly from GroupedLists (quantitative: symbolic boundaries;
qualitative: concrete categories).  A sequence of solver-chosen edits is applied through the real
update_discretizer; after every edit the transform of symbolic / solver-chosen probe rows is
compared with a reference model of the partition."""
from __future__ import annotations

import itertools
import json
import warnings

import numpy as np
import pandas as pd

from harness import k_qualitative, k_transform
from harness.common import contains, eqv
from harness.k_transform import NAN, column, contiguous_groupings
from symx import Obligation, Sym, Violation
from symx.rebind import rebound

ENC = ["BaseDiscretizer.update_discretizer", "GroupedList.group", "GroupedList.replace_group_leader", "GroupedList.get_group", "GroupedList.contains",
       "GroupedList.append", "BaseDiscretizer._get_labels_per_values", "BaseDiscretizer.transform", "transform_quantitative_feature", "BaseDiscretizer.summary"]



def _summary(ctx, d, history):
    """summary() of an edited object: any exception of the real code is a violation of C16 (seed5-C16), not a harness error"""
    from symx.core import EncodingError

    try:
        return d.summary()
    except (Violation, EncodingError):
        raise
    except Exception as e:
        ctx.require(False, "C16.summary-raised", f"after {history}: summary() raised {type(e).__name__}: {str(e)[:160]}")

def same(a, b):
    an = isinstance(a, float) and a != a
    bn = isinstance(b, float) and b != b
    if an or bn:
        return an and bn
    r = eqv(a, b)
    return bool(r) if isinstance(r, Sym) else r


def h_quant(ctx, m, gi, nan_mode, output_dtype, n_edits, dropna=True):
    try:
        return _h_quant(ctx, m, gi, nan_mode, output_dtype, n_edits, dropna)
    except Violation as v:
        v.extra = dict(v.extra or {}, feature_type="quantitative")
        raise


def _h_quant(ctx, m, gi, nan_mode, output_dtype, n_edits, dropna=True):
    grouping = contiguous_groupings(m)[gi]
    with rebound(ctx, ["R1"]):
        d, spec, nan_group, has_nan, quantiles = k_transform.build_fitted(ctx, m, grouping, nan_mode, output_dtype, dropna)
        # reference partition: ordered list of groups (lists of boundary indices); NaN membership
        groups = [list(g) for g in grouping]
        nan_in = nan_group  # index of group holding NaN, None = alone (if has_nan)
        x1 = ctx.real("x1", feature_value=True)
        x2 = ctx.real("x2", feature_value=True)
        rows = [x1, x2] + ([float("nan")] if has_nan else [])
        X = pd.DataFrame({"f": column(ctx, rows)})

        ubs = [quantiles[g[-1]] for g in groups]  # upper bound (= leader) of each group; 'replace' may move it

        def group_of(x, grps):
            for gi_, g in enumerate(grps):
                if bool(x <= ubs[gi_]):
                    return gi_
            raise AssertionError("unreachable: inf sentinel")

        history = []
        for step in range(n_edits):
            leaders = list(ubs)
            options = []
            for i in range(len(groups) - 1):
                options.append(("group", i, i + 1))      # discard lower neighbour into the upper one
                options.append(("group", i + 1, i))      # discard upper neighbour into the lower one
            if (has_nan and nan_in is None) or (not has_nan and step == 0):
                # missing values into an existing group: a missing-value modality of its own, or (documented use) a feature that had
                # no missing value at fit
                for i in range(len(groups)):
                    options.append(("group_nan", None, i))
            for i in range(len(groups) - 1):
                options.append(("replace", i, None))  # move a finite threshold to a new value between its neighbours ("round the thresholds")
            options.append(("noop_same", 0, 0))
            if not options:
                break
            mode, a, b = options[ctx.choose(f"edit{step}", len(options))]
            before_lab = [None if (isinstance(r, float) and r != r) else group_of(r, groups) for r in rows]
            exp_groups, exp_nan, exp_ubs = [list(g) for g in groups], nan_in, list(ubs)
            try:
                with warnings.catch_warnings():
                    warnings.simplefilter("ignore")
                    if mode == "group":
                        desc = f"group({leaders[a]!r} into {leaders[b]!r})"
                        d.update_discretizer("f", "group", leaders[a], leaders[b])
                        lo, hi = min(a, b), max(a, b)
                        exp_groups[lo:hi + 1] = [exp_groups[lo] + exp_groups[hi]]
                        exp_ubs[lo:hi + 1] = [exp_ubs[hi]]  # the merged interval ends at the larger of the two thresholds
                        if exp_nan is not None and exp_nan >= hi:
                            exp_nan -= 1
                    elif mode == "group_nan":
                        desc = f"group(nan into {leaders[b]!r})"
                        d.update_discretizer("f", "group", float("nan"), leaders[b])
                        exp_nan = b
                        if not has_nan:
                            has_nan = True
                            rows = rows + [float("nan")]
                            X = pd.DataFrame({"f": column(ctx, rows)})
                            before_lab = before_lab + [None]
                    elif mode == "replace":
                        r = ctx.real(f"r{step}", feature_value=True)
                        if a > 0:
                            ctx.assume(r > ubs[a - 1])
                        ctx.assume(r < ubs[a + 1])
                        ctx.assume(r != ubs[a])
                        for q_ in quantiles[:-1]:
                            ctx.assume(r != q_)
                        desc = f"replace({leaders[a]!r} by {r!r})"
                        d.update_discretizer("f", "replace", leaders[a], r)
                        exp_ubs[a] = r
                    else:
                        desc = "group(x into x)"
                        d.update_discretizer("f", "group", leaders[0], leaders[0])
            except Violation:
                raise
            except AssertionError as e:
                ctx.require(False, "C17.valid-edit-refused", f"{desc} raised AssertionError: {str(e)[:120]}")
            except Exception as e:
                ctx.require(False, "C17.edit-internal-error", f"update_discretizer {mode} raised {type(e).__name__}: {str(e)[:150]}")
            history.append(desc)
            if mode == "replace":
                # 'replace only renames a group': the partition of rows must be unchanged
                pass
            groups, nan_in, ubs = exp_groups, exp_nan, exp_ubs
            # ---- transform after the edit
            try:
                out = list(d.transform(X)["f"])
            except Violation:
                raise
            except Exception as e:
                ctx.require(False, "C17.transform-after-edit", f"transform after {history} raised {type(e).__name__}: {str(e)[:150]}")
            after_lab = [None if (isinstance(r, float) and r != r) else group_of(r, groups) for r in rows]
            # rows in the same reference group share a label, rows in different groups do not
            for i, j in itertools.combinations(range(len(rows)), 2):
                gi_ = after_lab[i] if after_lab[i] is not None else ("nan" if nan_in is None else nan_in)
                gj_ = after_lab[j] if after_lab[j] is not None else ("nan" if nan_in is None else nan_in)
                ctx.require(same(out[i], out[j]) == (gi_ == gj_), "C17.partition-after-edit",
                            f"after {history}: rows {rows[i]!r},{rows[j]!r} expected {'same' if gi_ == gj_ else 'different'} group, transform gives {out[i]!r},{out[j]!r} (groups {groups}, nan in {nan_in})")
            # labels / labels_per_values / summary agree with transform
            lpv = d.labels_per_values["f"]
            vo = d.values_orders["f"]
            n_lead = len([l for l in vo])
            exp_n = len(groups) + (1 if has_nan and nan_in is None else 0)
            ctx.require(n_lead == exp_n, "C17.values-orders-after-edit", f"after {history}: {n_lead} groups in values_orders, expected {exp_n}")
            if output_dtype == "float":
                for i, r in enumerate(rows):
                    if after_lab[i] is not None:
                        ctx.require(eqv(out[i], after_lab[i]), "C17.label-after-edit", f"after {history}: row {r!r} labelled {out[i]!r}, rank of its group is {after_lab[i]}")
            s = _summary(ctx, d, history)
            ctx.require(len(s) == exp_n, "C17.summary-after-edit", f"after {history}: summary has {len(s)} rows for {exp_n} groups")
            if getattr(ctx, "concrete", False):
                from AutoCarver.discretizers.utils.base_discretizers import load_discretizer

                loaded = load_discretizer(json.loads(json.dumps(d.to_json())))
                out2 = list(loaded.transform(X)["f"])
                ctx.require(all(same(a_, b_) for a_, b_ in zip(out, out2)), "C17.json-after-edit", f"after {history} (dropna={dropna}): reloaded object transforms to {out2}, original {out}", dict(concrete_only=True))
    return dict(counters={"ok": 1}, sample=dict(m=m, grouping=grouping, nan_mode=nan_mode, edits=history), result=dict(groups=groups, nan_in=nan_in, n_edits=len(history)))


def h_qual(ctx, config, output_dtype, n_edits, ordered, dropna=True):
    try:
        return _h_qual(ctx, config, output_dtype, n_edits, ordered, dropna)
    except Violation as v:
        v.extra = dict(v.extra or {}, feature_type="qualitative")
        raise


def _h_qual(ctx, config, output_dtype, n_edits, ordered, dropna=True):
    from AutoCarver.discretizers import GroupedList
    from AutoCarver.discretizers.utils.base_discretizers import BaseDiscretizer, load_discretizer

    cfg_groups, has_default, has_nan = k_qualitative.CONFIGS[config]
    groups = [[l, list(mem)] for l, mem in cfg_groups]
    d = BaseDiscretizer(["f"], values_orders={"f": GroupedList({l: list(mem) for l, mem in groups})}, input_dtypes="str", output_dtype=output_dtype,
                        str_nan=k_qualitative.NAN, str_default=k_qualitative.OTHER, dropna=dropna, copy=True, verbose=False)
    d.fit()
    nan_stays_missing = (not dropna) and has_nan  # until missing values are attached to a group by an edit
    known = [v for _, mem in groups for v in mem]
    probe_vals = [v for v in known if v != k_qualitative.NAN] + ([np.nan] if has_nan else [])
    X = pd.DataFrame({"f": pd.Series(probe_vals, dtype=object)})
    history = []
    for step in range(n_edits):
        real_groups = [g for g in groups]
        idx = list(range(len(real_groups)))
        options = []
        for i in idx:
            for j in idx:
                if i != j and (not ordered or abs(i - j) == 1):
                    if real_groups[i][0] == k_qualitative.NAN:
                        options.append(("group_nan", i, j))
                    elif real_groups[j][0] != k_qualitative.NAN:
                        options.append(("group", i, j))
        for i in idx:
            if real_groups[i][0] != k_qualitative.NAN:
                options.append(("replace", i, f"renamed{step}"))  # 'replace' renames a group with a new value
        mode, a, b = options[ctx.choose(f"edit{step}", len(options))]
        try:
            with warnings.catch_warnings():
                warnings.simplefilter("ignore")
                if mode == "group":
                    desc = f"group({groups[a][0]!r} into {groups[b][0]!r})"
                    d.update_discretizer("f", "group", groups[a][0], groups[b][0])
                    groups[b][1] = groups[a][1] + groups[b][1]
                    del groups[a]
                elif mode == "group_nan":
                    desc = f"group(nan into {groups[b][0]!r})"
                    d.update_discretizer("f", "group", float("nan"), groups[b][0])
                    groups[b][1] = groups[a][1] + groups[b][1]
                    del groups[a]
                    nan_stays_missing = False
                else:
                    desc = f"replace({groups[a][0]!r} by {b!r})"
                    d.update_discretizer("f", "replace", groups[a][0], b)
                    groups[a][1] = [b] + groups[a][1]
                    groups[a][0] = b
        except Violation:
            raise
        except AssertionError as e:
            ctx.require(False, "C17.valid-edit-refused", f"{desc} raised AssertionError: {str(e)[:120]}")
        except Exception as e:
            ctx.require(False, "C17.edit-internal-error", f"update_discretizer: {desc} raised {type(e).__name__}: {str(e)[:150]}")
        history.append(desc)
        try:
            out = list(d.transform(X)["f"])
        except Exception as e:
            ctx.require(False, "C17.transform-after-edit", f"transform after {history} raised {type(e).__name__}: {str(e)[:150]}")

        def gidx(v):
            key = k_qualitative.NAN if (isinstance(v, float) and v != v) else v
            for i, (_, mem) in enumerate(groups):
                if any(type(key) == type(x) and key == x for x in mem):
                    return i
            return None

        def isnan_(v):
            return isinstance(v, float) and v != v

        if nan_stays_missing:
            for v, o in zip(probe_vals, out):
                if isnan_(v):
                    ctx.require(isnan_(o), "C17.label-after-edit", f"after {history} (dropna=False, missing values not attached to a group): NaN row became {o!r}")
        for i, j in itertools.combinations(range(len(probe_vals)), 2):
            if nan_stays_missing and (isnan_(probe_vals[i]) or isnan_(probe_vals[j])):
                continue
            gi_, gj_ = gidx(probe_vals[i]), gidx(probe_vals[j])
            ctx.require((out[i] == out[j]) == (gi_ == gj_), "C17.partition-after-edit",
                        f"after {history}: values {probe_vals[i]!r},{probe_vals[j]!r} expected {'same' if gi_ == gj_ else 'different'} group, transform gives {out[i]!r},{out[j]!r}")
        if output_dtype == "str":
            for v, o in zip(probe_vals, out):
                if nan_stays_missing and isnan_(v):
                    continue
                ctx.require(o == groups[gidx(v)][0], "C17.label-after-edit", f"after {history}: value {v!r} labelled {o!r}, its group's leader is {groups[gidx(v)][0]!r}")
        leaders = list(d.values_orders["f"])
        ctx.require(leaders == [g[0] for g in groups], "C17.values-orders-after-edit", f"after {history}: leaders {leaders!r}, expected {[g[0] for g in groups]!r}")
        s = _summary(ctx, d, "edits").reset_index().to_dict("records")
        for r in s:
            for x in r["content"]:
                ctx.require(r["label"] == d.labels_per_values["f"][x], "C17.summary-after-edit", f"summary says {x!r} -> {r['label']!r}")
        if getattr(ctx, "concrete", False):
            loaded = load_discretizer(json.loads(json.dumps(d.to_json())))
            out2 = list(loaded.transform(X)["f"])
            ctx.require(all(same(a_, b_) for a_, b_ in zip(out, out2)) and len(out) == len(out2), "C17.json-after-edit", f"after {history} (dropna={dropna}): reloaded object transforms to {out2}, original {out}", dict(concrete_only=True))
    return dict(counters={"ok": 1}, sample=dict(config=config, edits=history), result=dict(leaders=[g[0] for g in groups]))


def obligations(tier, prefix="O17.1"):
    quick = tier == "quick"
    qj = []
    for m in ([2, 3] if quick else [2, 3, 4]):
        for gi in range(len(contiguous_groupings(m))):
            g = len(contiguous_groupings(m)[gi])
            for nan_mode in ["none", "alone"] + ([str(g - 1)] if not quick else []):
                for od in ("float", "str"):
                    for n_edits in ([1, 2] if m <= 3 else [1]):
                        for dropna in ((True, False) if nan_mode == "alone" else (True,)):
                            qj.append(dict(m=m, gi=gi, nan_mode=nan_mode, output_dtype=od, n_edits=n_edits, dropna=dropna))
    cj = []
    for config in ("plain", "default", "nan_alone", "numeric"):
        for od in ("str", "float"):
            for ordered in (False, True):
                for n_edits in ([1, 2] if quick else [1, 2, 3]):
                    for dropna in ((True, False) if config == "nan_alone" else (True,)):
                        cj.append(dict(config=config, output_dtype=od, n_edits=n_edits, ordered=ordered, dropna=dropna))
    return [
        Obligation(name=prefix + "a quantitative feature: sequences of solver-chosen edits (adjacent groups in both directions, NaN into a group, replace) keep transform coherent with the edited partition",
                   harness=h_quant, jobs=qj, encodes=ENC, rebindings=["R1", "R3"],
                   bounds=f"m <= {3 if quick else 4} symbolic boundaries, every initial grouping, NaN absent/alone, <= 2 edits, two symbolic probe rows + NaN row", twin_every=2),
        Obligation(name=prefix + "b qualitative feature: sequences of edits on string / numeric / missing values; labels, summary and (on concrete witnesses) the JSON round trip agree with transform",
                   harness=h_qual, jobs=cj, encodes=ENC + ["load_discretizer", "BaseDiscretizer.to_json"],
                   bounds=f"4 configurations, <= {2 if quick else 3} edits, any groups (categorical) or adjacent groups (ordered), probe = every known value (+NaN)", twin_every=1),
    ]
