"""C18 — ChainedDiscretizer merges rare values only along the supplied hierarchy."""
from __future__ import annotations

import numpy as np
import pandas as pd

from symx import Infeasible, Obligation, Violation

NAN = "__NAN__"
HIER = {
    # name: (leaves in order, levels: list of dict group -> members)
    "two_level": (["a1", "a2", "b1", "b2"], [{"A": ["a1", "a2"], "B": ["b1", "b2"]}, {"ALL": ["A", "B"]}]),
    "uneven": (["a1", "a2", "a3", "b1", "c1"], [{"A": ["a1", "a2", "a3"], "B": ["b1"], "C": ["c1"]}, {"AB": ["A", "B"], "CC": ["C"]}]),
    "one_level": (["x", "y", "z"], [{"XY": ["x", "y"], "Z": ["z"]}]),
    "three_level": (["a1", "a2", "b1"], [{"A": ["a1", "a2"], "B": ["b1"]}, {"M": ["A", "B"]}, {"TOP": ["M"]}]),
}
# numeric codes held as numbers in the column (converted to their string form before the hierarchy applies); only the
# rejection of an unknown code under unknown_handling='raise' is asserted for this one
HIER_NUMERIC = (["1", "2", "3"], [{"A": ["1", "2"], "B": ["3"]}])


def h_chained(ctx, hier, N, n_nan, n_unknown, unknown_handling):
    from AutoCarver.discretizers import ChainedDiscretizer, GroupedList

    leaves, levels = HIER_NUMERIC if hier == "numeric" else HIER[hier]
    counts, left = [], N
    for i in range(len(leaves) - 1):
        c = ctx.choose(f"c{i}", left + 1)
        counts.append(c)
        left -= c
    counts.append(left)
    col = [l for l, c in zip(leaves, counts) for _ in range(c)] + [np.nan] * n_nan + ["zz"] * n_unknown
    if hier == "numeric":
        col = [int(l) for l, c in zip(leaves, counts) for _ in range(c)] + [np.nan] * n_nan + [99] * n_unknown
    total = len(col)
    mf = ctx.real("min_freq")
    ctx.assume(mf > 0)
    ctx.assume(mf <= 0.5)
    X = pd.DataFrame({"f": pd.Series(col, dtype=object)})
    y = pd.Series([i % 2 for i in range(total)])
    chained = [GroupedList({g: list(m) + [g] for g, m in lvl.items()}) for lvl in levels]
    d = ChainedDiscretizer(["f"], min_freq=mf, chained_orders=chained, unknown_handling=unknown_handling, copy=True, verbose=False)
    x_before = X.copy()
    try:
        d.fit(X, y)
        outcome = "fitted"
    except Violation:
        raise
    except AssertionError as e:
        outcome = "AssertionError"
        msg = str(e)
    except Exception as e:
        ctx.require(False, "C08.internal-error", f"ChainedDiscretizer.fit raised {type(e).__name__}: {str(e)[:160]} (counts {counts}, nan {n_nan}, unknown {n_unknown})")
    if outcome == "fitted" and "f" not in d.features:
        # every modality rarer than min_freq: the feature is not discretized at all (documented warning),
        # so there is nothing unknown_handling could apply to
        mx = max(counts + [n_unknown, 0])
        ctx.require(mx / total < mf, "C18.feature-dropped", f"feature dropped although its largest modality holds {mx}/{total} >= min_freq")
        return dict(counters={"dropped": 1}, sample=dict(hier=hier, counts=counts, outcome="dropped"), result=dict(outcome="dropped"))
    if n_unknown and unknown_handling == "raise":
        ctx.require(outcome == "AssertionError", "C18.unknown-not-rejected", f"unknown value {col[-1]!r} accepted under unknown_handling='raise' (column values {sorted(set(map(repr, col)))})")
        return dict(counters={"rejected": 1}, sample=dict(hier=hier, counts=counts, outcome=outcome), result=dict(outcome=outcome))
    if outcome == "AssertionError":
        ctx.require(False, "C18.valid-sample-rejected", f"fit refused a sample whose values are all known: {msg[:160]} (counts {counts})")
    if "f" not in d.features:
        # every modality rarer than min_freq: the feature is not discretized (documented warning)
        mx = max(counts + [0])
        ctx.require(mx / total < mf, "C18.feature-dropped", f"feature dropped although its largest modality holds {mx}/{total} >= min_freq")
        return dict(counters={"dropped": 1}, sample=dict(hier=hier, counts=counts, outcome="dropped"), result=dict(outcome="dropped"))
    vo = d.values_orders["f"]
    # ---------------- reference: bottom-up accumulation along the hierarchy
    cnt = {l: c for l, c in zip(leaves, counts)}
    leader = {l: l for l in leaves}
    for lvl in levels:
        for g in lvl:
            cnt.setdefault(g, 0)
            leader.setdefault(g, g)
    members = {v: [v] for v in cnt}  # current modality -> known values it holds
    for lvl in levels:
        for g, mem in lvl.items():
            for v in mem:
                if v not in members:
                    continue  # already merged lower down (cannot happen in a well-formed hierarchy)
                if not bool(cnt[v] / total >= mf):
                    members[g] = members.pop(v) + members[g]
                    cnt[g] += cnt[v]
                    cnt[v] = 0
    exp = {g: sorted(m) for g, m in members.items()}
    known = set(cnt)
    # ---------------- every known value still present, exactly once
    allv = [v for l in vo for v in vo.content[l]]
    vals = [v for v in allv if v not in (NAN, "zz")]
    ctx.require(sorted(vals) == sorted(known), "C18.known-value-lost", f"values_orders holds {sorted(vals)}, hierarchy knows {sorted(known)}")
    ctx.require(len(allv) == len(set(allv)), "C18.value-twice", f"a value appears in two groups: {allv}")
    got = {l: sorted(v for v in vo.content[l] if v not in (NAN, "zz")) for l in vo if l != NAN}
    got = {l: m for l, m in got.items()}
    ctx.require(got == exp, "C18.wrong-merge", f"groups {got} differ from the hierarchy-driven expectation {exp} (counts {dict(zip(leaves, counts))}, total {total})")
    # unknown values / NaN
    if n_unknown:
        ctx.require(NAN in vo.content and "zz" in vo.content[NAN], "C18.unknown-not-with-nan", f"unknown value not merged with missing values: {dict(vo.content)}")
    # ---------------- transform outputs each value's leader
    Xt = pd.DataFrame({"f": pd.Series(sorted(known & set(leaves)) + ([np.nan] if (n_nan or n_unknown) else []), dtype=object)})
    try:
        out = list(d.transform(Xt)["f"])
    except Exception as e:
        ctx.require(False, "C18.transform", f"transform raised {type(e).__name__}: {str(e)[:120]}")
    for v, o in zip(list(Xt["f"]), out):
        if isinstance(v, float):
            continue
        lead = next(g for g, m in exp.items() if v in m)
        ctx.require(o == lead, "C18.transform-not-leader", f"value {v!r} transformed to {o!r}, its group leader is {lead!r}")
    # ---------------- two features of one object are merged by their OWN frequencies (seed5-C18: a shared default order)
    if not n_nan and not n_unknown and hier != "numeric":
        gcol = [leaves[i % len(leaves)] for i in range(total)]
        X2 = pd.DataFrame({"f": pd.Series(col, dtype=object), "g": pd.Series(gcol, dtype=object)})

        def _fit(feats):
            ch = [GroupedList({g_: list(m) + [g_] for g_, m in lvl.items()}) for lvl in levels]
            dd = ChainedDiscretizer(feats, min_freq=mf, chained_orders=ch, unknown_handling=unknown_handling, copy=True, verbose=False)
            dd.fit(X2, y)
            return {ft: ({l: sorted(map(str, m)) for l, m in dd.values_orders[ft].content.items()} if ft in dd.features else None) for ft in feats}

        try:
            both, alone_g = _fit(["f", "g"]), _fit(["g"])
        except Violation:
            raise
        except Exception as e:
            ctx.require(False, "C08.internal-error", f"ChainedDiscretizer.fit on two features raised {type(e).__name__}: {str(e)[:160]}")
        alone_f = {l: sorted(map(str, m)) for l, m in vo.content.items()}
        ctx.require(both["f"] == alone_f, "C18.depends-on-other-feature", f"feature f fitted next to g: {both['f']}; alone: {alone_f} (counts {dict(zip(leaves, counts))})")
        ctx.require(both["g"] == alone_g["g"], "C18.depends-on-other-feature", f"uniform feature g fitted next to f: {both['g']}; alone: {alone_g['g']} (f counts {dict(zip(leaves, counts))})")
    return dict(counters={"ok": 1}, sample=dict(hier=hier, counts=counts, n_nan=n_nan, groups=exp), result=dict(groups=exp))


def obligations(tier):
    quick = tier == "quick"
    jobs = []
    for hier in HIER:
        for N in ([4, 6] if quick else [4, 6, 8, 10]):
            for n_nan in (0, 1):
                for n_unknown, uh in ((0, "raise"), (1, "raise"), (1, "drop")):
                    if len(HIER[hier][0]) >= 5 and N > 8:
                        continue
                    jobs.append(dict(hier=hier, N=N, n_nan=n_nan, n_unknown=n_unknown, unknown_handling=uh))
    for N in ([4] if quick else [4, 6]):
        for n_nan in (0, 1):
            jobs.append(dict(hier="numeric", N=N, n_nan=n_nan, n_unknown=1, unknown_handling="raise"))
    return [
        Obligation(
            name="O18.1 every known value kept; a value is its own modality iff its share >= min_freq, otherwise merged into its ancestor (recursively); unknown values per unknown_handling; transform outputs leaders; a second (uniform) feature fitted by the same object does not change either grouping",
            harness=h_chained, jobs=jobs,
            encodes=["ChainedDiscretizer.__init__", "ChainedDiscretizer._prepare_data", "ChainedDiscretizer.fit", "GroupedList.group/get_group/sort_by", "BaseDiscretizer.transform/_transform_qualitative/_check_new_values"],
            bounds=f"4 hierarchies (1-3 levels, uneven fan-out), N <= {6 if quick else 10} rows with solver-chosen per-leaf counts (0 = never observed), 0/1 NaN row, 0/1 unknown value (a string, or a number in a column of numeric codes), "
                   "unknown_handling in {raise, drop}, min_freq any real in (0,0.5]",
            outside="hierarchies deeper than 3 levels or wider than 5 leaves; intermediate values appearing as raw data",
            twin_every=5,
        )
    ]
