"""C19 — malformed inputs are refused up-front with AssertionError; a rejected call leaves a fitted
object's values_orders, JSON export and transform unchanged.

A small valid sample is corrupted at a solver-chosen position with a solver-chosen variant of each
corruption class listed in the property; the data are concrete (the symbolic variables are the
corruption's kind, position and values).  sort_by strings are decided by CrossHair."""
from __future__ import annotations

import json

import numpy as np
import pandas as pd

from harness import xh
from symx import Obligation, Violation

CLASSES = ["BinaryCarver", "ContinuousCarver", "MulticlassCarver", "Discretizer", "QuantitativeDiscretizer", "QualitativeDiscretizer"]
CORRUPTIONS = ["y_nan", "y_classes", "y_index", "x_type", "y_type", "x_missing_col", "xdev_missing_col", "both_lists", "str_in_quant", "ordinal_unknown", "refit",
               "refit_other_data", "transform_missing_col", "refit_all_dropped"]
N = 12


def base_sample():
    f = [1.0, 2.0, 3.0, 4.0, 5.0, 6.0, 1.5, 2.5, 3.5, 4.5, 5.5, 6.5]
    q = ["a", "b", "c", "a", "b", "c", "a", "b", "c", "a", "b", "c"]
    o = ["L", "M", "H", "L", "M", "H", "M", "M", "H", "L", "H", "L"]
    X = pd.DataFrame({"f": f, "q": q, "o": o, "extra": list(range(N))})
    X.index = [10 + i for i in range(N)]
    return X


def target(cls, X):
    if cls == "ContinuousCarver":
        return pd.Series([0.1 * i + (i % 3) for i in range(N)], index=X.index)
    if cls == "MulticlassCarver":
        return pd.Series([0, 1, 2, 0, 1, 2, 2, 1, 0, 0, 2, 1], index=X.index)
    return pd.Series([0, 0, 1, 0, 1, 1, 0, 1, 1, 0, 1, 0], index=X.index)


def build(cls, **over):
    from AutoCarver import BinaryCarver, ContinuousCarver, MulticlassCarver
    from AutoCarver.discretizers import Discretizer, QualitativeDiscretizer, QuantitativeDiscretizer

    vo = {"o": ["L", "M", "H"]}
    common = dict(min_freq=0.2, copy=True)
    if cls in ("BinaryCarver", "MulticlassCarver"):
        kw = dict(sort_by="cramerv", quantitative_features=["f"], qualitative_features=["q"], ordinal_features=["o"], values_orders=vo, max_n_mod=3, **common)
        kw.update(over)
        return {"BinaryCarver": BinaryCarver, "MulticlassCarver": MulticlassCarver}[cls](**kw)
    if cls == "ContinuousCarver":
        kw = dict(quantitative_features=["f"], qualitative_features=["q"], ordinal_features=["o"], values_orders=vo, max_n_mod=3, **common)
        kw.update(over)
        return ContinuousCarver(**kw)
    if cls == "Discretizer":
        kw = dict(quantitative_features=["f"], qualitative_features=["q"], ordinal_features=["o"], values_orders=vo, **common)
        kw.update(over)
        return Discretizer(**kw)
    if cls == "QuantitativeDiscretizer":
        kw = dict(quantitative_features=["f"], **common)
        kw.update(over)
        return QuantitativeDiscretizer(**kw)
    kw = dict(qualitative_features=["q"], ordinal_features=["o"], values_orders=vo, **common)
    kw.update(over)
    return QualitativeDiscretizer(**kw)


def raw_cols(cls):
    return {"QuantitativeDiscretizer": ["f"], "QualitativeDiscretizer": ["q", "o"]}.get(cls, ["f", "q", "o"])


def state_of(obj, X):
    vo = {k: [(repr(l), [repr(v) for v in g.content[l]]) for l in g] for k, g in obj.values_orders.items()}
    js = json.dumps(obj.to_json(), sort_keys=True, default=str)
    try:
        tr = obj.transform(X).astype(str).values.tolist()
    except Exception as e:  # pragma: no cover
        tr = f"{type(e).__name__}: {e}"
    return dict(vo=vo, json=js, transform=tr, features=sorted(obj.features))


def applicable(cls, corruption):
    has_f = cls != "QualitativeDiscretizer"
    has_o = cls != "QuantitativeDiscretizer"
    if corruption == "str_in_quant":
        return has_f
    if corruption == "ordinal_unknown":
        return has_o
    if corruption == "xdev_missing_col":
        return "Carver" in cls
    if corruption == "both_lists":
        return "Carver" in cls
    if corruption == "y_classes":
        return "Carver" in cls
    return True


def h_malformed(ctx, cls, corruption, fitted_before):
    try:
        return _h_malformed(ctx, cls, corruption, fitted_before)
    except Violation as v:
        v.extra = dict(v.extra or {}, cls=cls, corruption=corruption, fitted_before=fitted_before)
        raise


def _h_all_dropped(ctx, cls):
    """A successful first fit that drops every requested feature still makes the object a fitted one: a second fit is refused."""
    X = base_sample()
    y = target(cls, X)
    variant = ctx.choose("variant", 2)
    X["f"] = 1.0 if variant == 0 else [1.0] * (N - 1) + [2.0]   # constant / almost constant quantitative column
    X["q"] = [f"id{i}" for i in range(N)]                       # identifier-like qualitative column
    if cls in ("QualitativeDiscretizer",):
        obj = build(cls, qualitative_features=["q"], ordinal_features=[], values_orders={})
    elif cls == "QuantitativeDiscretizer":
        obj = build(cls)
    elif cls == "Discretizer":
        obj = build(cls, quantitative_features=[], qualitative_features=["q"], ordinal_features=[], values_orders={})
    else:
        which = ctx.choose("which", 2)
        obj = build(cls, quantitative_features=["f"] if which == 0 else [], qualitative_features=["q"] if which == 1 else [], ordinal_features=[], values_orders={})
    try:
        obj.fit(X, y)
    except AssertionError:
        return dict(counters={"skipped": 1})
    if len(obj.features) > 0:
        return dict(counters={"skipped": 1})
    before = state_of(obj, X)
    detail = f"second fit after a fit that dropped every feature ({cls}, variant {variant})"
    try:
        obj.fit(X, y)
        outcome = "accepted"
    except AssertionError:
        outcome = "AssertionError"
    except Violation:
        raise
    except Exception as e:
        outcome = f"{type(e).__name__}: {str(e)[:120]}"
    ctx.require(outcome != "accepted", "C19.malformed-accepted", f"{cls}: {detail} was accepted")
    ctx.require(outcome == "AssertionError", "C19.wrong-exception", f"{cls}: {detail} raised {outcome} instead of AssertionError")
    after = state_of(obj, X)
    for key in ("features", "vo", "json", "transform"):
        ctx.require(after[key] == before[key], "C19.rejected-call-mutated-state", f"{cls}: rejected call ({detail}) changed the fitted object's {key}")
    return dict(counters={"rejected": 1, "all_dropped": 1}, sample=dict(cls=cls, corruption="refit_all_dropped", detail=detail), result=dict(outcome=outcome))


def _h_malformed(ctx, cls, corruption, fitted_before):
    if corruption == "refit_all_dropped":
        return _h_all_dropped(ctx, cls)
    X = base_sample()
    y = target(cls, X)
    obj = build(cls)
    before = None
    if fitted_before or corruption in ("refit", "refit_other_data", "transform_missing_col"):
        obj.fit(X, y)
        before = state_of(obj, X)
    Xc, yc, fit_kw = X.copy(), y.copy(), {}
    detail = None
    call = "fit"
    pos = ctx.choose("pos", N)
    if corruption == "y_nan":
        yc = yc.astype(float)
        yc.iloc[pos] = np.nan
        detail = f"y[{pos}]=NaN"
    elif corruption == "y_classes":
        variant = ctx.choose("variant", 4)
        if cls == "BinaryCarver":
            yc = [pd.Series([1] * N, index=X.index), pd.Series([0] * N, index=X.index), yc.where(yc == 0, 2),
                  yc.mask(pd.Series(range(N), index=X.index) == pos, 2)][variant]
        elif cls == "ContinuousCarver":
            yc = [pd.Series([0, 1] * (N // 2), index=X.index), pd.Series([0.5] * N, index=X.index), pd.Series([1.5, 2.5] * (N // 2), index=X.index),
                  pd.Series(["a", "b", "c"] * (N // 3), index=X.index)][variant]
        else:
            yc = [pd.Series([0, 1] * (N // 2), index=X.index), pd.Series([7] * N, index=X.index), pd.Series(["u", "v"] * (N // 2), index=X.index),
                  pd.Series([0, 1] * (N // 2), index=X.index)][variant]
        detail = f"y classes variant {variant}"
    elif corruption == "y_index":
        variant = ctx.choose("variant", 3)
        idx = list(X.index)
        if variant == 0:
            off = ctx.choose("offset", 3) + 1
            idx[pos] = idx[pos] + 1000 * off
            detail = f"y.index[{pos}] shifted"
        elif variant == 1:  # same labels, two of them swapped
            other = (pos + 1 + ctx.choose("other", N - 1)) % N
            idx[pos], idx[other] = idx[other], idx[pos]
            detail = f"y.index: labels of rows {pos} and {other} swapped"
        else:  # same labels, reversed
            idx = idx[::-1]
            detail = "y.index reversed"
        yc = pd.Series(list(y), index=idx)
    elif corruption == "x_type":
        variant = ctx.choose("variant", 3)
        Xc = [X.values, X.to_dict("list"), X["f"]][variant]
        detail = f"X is a {type(Xc).__name__}"
    elif corruption == "y_type":
        variant = ctx.choose("variant", 3)
        yc = [list(y), y.values, y.to_frame()][variant]
        detail = f"y is a {type(yc).__name__}"
    elif corruption == "x_missing_col":
        cols = raw_cols(cls)
        col = cols[ctx.choose("col", len(cols))]
        Xc = X.drop(columns=[col])
        detail = f"X lacks {col}"
    elif corruption == "xdev_missing_col":
        cols = raw_cols(cls)
        col = cols[ctx.choose("col", len(cols))]
        fit_kw = dict(X_dev=X.drop(columns=[col]), y_dev=y.copy())
        detail = f"X_dev lacks {col}"
    elif corruption == "both_lists":
        variant = ctx.choose("variant", 2)
        call = "init"
        detail = "feature both quantitative and " + ("qualitative" if variant == 0 else "ordinal")
    elif corruption == "str_in_quant":
        variant = ctx.choose("variant", 3)
        if variant == 1:  # integer-valued discrete feature
            Xc["f"] = (Xc["f"] * 2).astype(int)
        elif variant == 2:  # numeric feature with missing values
            Xc.loc[Xc.index[(pos + 1) % N], "f"] = np.nan
        Xc["f"] = Xc["f"].astype(object)
        Xc.iloc[pos, 0] = ["oops", "", "12"][ctx.choose("strval", 3)]
        detail = f"X.f[{pos}]={Xc.iloc[pos, 0]!r} in a {['float', 'integer-valued', 'float with NaN'][variant]} column"
    elif corruption == "ordinal_unknown":
        Xc.iloc[pos, 2] = "XL"
        detail = f"X.o[{pos}]='XL' (absent from the ranking)"
    elif corruption == "refit":
        detail = "second fit on the same data"
    elif corruption == "refit_other_data":
        Xc = X.iloc[::-1].copy()
        Xc["f"] = Xc["f"] * 3 + 1
        yc = pd.Series(list(y)[::-1], index=Xc.index)
        detail = "second fit on different data"
    elif corruption == "transform_missing_col":
        cols = [c for c in raw_cols(cls) if any(c in cast for cast in obj.features_casting)]
        if not cols:
            return dict(counters={"skipped": 1})
        col = cols[ctx.choose("col", len(cols))]
        Xc = X.drop(columns=[col])
        call = "transform"
        detail = f"transform: X lacks {col}"
    # ---------------- the malformed call
    try:
        if call == "init":
            if variant == 0:
                build(cls, quantitative_features=["f", "q"], qualitative_features=["q"])
            else:
                build(cls, quantitative_features=["f", "o"], ordinal_features=["o"])
        elif call == "transform":
            obj.transform(Xc)
        else:
            obj.fit(Xc, yc, **fit_kw)
        outcome = "accepted"
    except AssertionError as e:
        outcome = "AssertionError"
    except Violation:
        raise
    except Exception as e:
        outcome = f"{type(e).__name__}: {str(e)[:120]}"
    ctx.require(outcome != "accepted", "C19.malformed-accepted", f"{cls}: {detail} was accepted")
    ctx.require(outcome == "AssertionError", "C19.wrong-exception", f"{cls}: {detail} raised {outcome} instead of AssertionError")
    if before is not None:
        after = state_of(obj, X)
        for key in ("features", "vo", "json", "transform"):
            ctx.require(after[key] == before[key], "C19.rejected-call-mutated-state",
                        f"{cls}: rejected call ({detail}) changed the fitted object's {key}")
    return dict(counters={"rejected": 1}, sample=dict(cls=cls, corruption=corruption, detail=detail, fitted_before=fitted_before), result=dict(outcome=outcome))


def post(tier):
    res = dict(name="O19.2 every sort_by string outside {tschuprowt, cramerv} (resp. kruskal) is refused with AssertionError (CrossHair on the real constructors)",
               ok=False, states=0, queries=0, solver_s=0.0, twin=0, violations=[], errors=[], samples=[])
    try:
        results, wall, rc, tail = xh.run_file(xh.VERIF + "/crosshair/c19_sort_by.py", 25 if tier == "quick" else 90)
    except Exception as e:
        res["errors"].append(f"crosshair failed: {type(e).__name__}: {e}")
        return [res]
    res["solver_s"] = round(wall, 2)
    by = {r["fn"]: r for r in results}
    res["states"] = res["queries"] = len(results)
    res["crosshair"] = {k: v["verdict"] for k, v in by.items()}
    reach = by.get("_reach_binary")
    if reach is None or reach["verdict"] != "refuted":
        res["errors"].append("vacuity guard: reachability twin not refuted")
    for fn in ("_binary_refuses_unknown_sort_by", "_multiclass_refuses_unknown_sort_by", "_continuous_refuses_unknown_sort_by"):
        r = by.get(fn)
        if r is None or r["verdict"] == "unknown":
            res["errors"].append(f"CrossHair inconclusive on {fn}: {r and r['msg']}")
        elif r["verdict"] == "refuted":
            # replay on the real constructor
            import importlib

            mod = importlib.import_module("crosshair.c19_sort_by") if False else None
            args = r["args"]
            res["twin"] += 1
            ok = _replay_sort_by(fn, args)
            if ok:
                res["violations"].append(dict(ob=res["name"], kind="C19.sort-by-accepted", reproduced=True,
                                              message=f"{fn}: sort_by={args!r} accepted or wrong exception", model=dict(args=repr(args)),
                                              raw_model=dict(args=repr(args)), job=dict(obligation="O19.2", fn=fn), extra=dict(fn=fn)))
            else:
                res["errors"].append(f"CrossHair counterexample {fn}{args!r} did not reproduce")
    res["ok"] = not res["errors"] and not res["violations"]
    return [res]


def _replay_sort_by(fn, args):
    from AutoCarver import BinaryCarver, ContinuousCarver, MulticlassCarver

    s = args[0]
    cls, allowed = {"_binary": (BinaryCarver, ("tschuprowt", "cramerv")), "_multic": (MulticlassCarver, ("tschuprowt", "cramerv")), "_contin": (ContinuousCarver, ("kruskal",))}[fn[:7]]
    if s in allowed:
        return False
    try:
        cls(sort_by=s, min_freq=0.1, quantitative_features=["f"])
        return True
    except AssertionError:
        return False
    except Exception:
        return True


def obligations(tier):
    jobs = []
    for cls in CLASSES:
        for corruption in CORRUPTIONS:
            if not applicable(cls, corruption):
                continue
            if corruption in ("refit", "refit_other_data", "transform_missing_col", "refit_all_dropped"):
                jobs.append(dict(cls=cls, corruption=corruption, fitted_before=True))
            elif corruption == "both_lists":
                jobs.append(dict(cls=cls, corruption=corruption, fitted_before=False))
            else:
                jobs.append(dict(cls=cls, corruption=corruption, fitted_before=False))
                jobs.append(dict(cls=cls, corruption=corruption, fitted_before=True))
    return [
        Obligation(
            name="O19.1 each listed class of malformed input, injected at a solver-chosen position/variant, is refused with AssertionError; a fitted object is left unchanged",
            harness=h_malformed, jobs=jobs,
            encodes=["BaseDiscretizer._prepare_data/fit", "BaseCarver.__init__/_prepare_data/fit", "BinaryCarver._prepare_data", "ContinuousCarver._prepare_data", "MulticlassCarver._prepare_data/fit",
                     "Discretizer.fit", "QuantitativeDiscretizer._prepare_data", "QualitativeDiscretizer._prepare_data", "BaseDiscretizer._check_new_values", "BaseDiscretizer.to_json"],
            bounds=f"6 classes x {len(CORRUPTIONS)} corruption kinds, before and after a successful fit; position among {N} rows, variant and column solver-chosen; concrete 12-row sample",
            outside="malformed inputs of kinds not listed in the property; data values are concrete (the corruption is the variable)",
            twin_every=4, budget_s=6.0,
        )
    ]
