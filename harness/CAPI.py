"""Debug aggregate (not registered): all API-tier assertion sets at once."""
from harness import k_api


def obligations(tier):
    return [
        k_api.obligation(tier, {"C01", "C02", "C03", "C05", "C08", "C09", "C16", "C06"}, "API all", ["BinaryCarver", "ContinuousCarver", "Discretizer", "QuantitativeDiscretizer", "ContinuousDiscretizer"], ns=[4]),
    ]
