"""Shared helpers for harnesses."""
from __future__ import annotations

import os
import sys
import warnings

REPO = os.environ.get("VERIF_REPO", "/repo")
if REPO not in sys.path:
    sys.path.insert(0, REPO)
warnings.filterwarnings("ignore")

from symx import Sym, SBool, SNum, Violation  # noqa: E402


def is_sym(v):
    return isinstance(v, Sym)


def eqv(a, b):
    """Equality usable for proxies and plain values; returns SBool or bool."""
    if isinstance(a, float) and isinstance(b, float) and a != a and b != b:
        return True  # missing-value sentinel numpy.nan: the library's own is_equal is "NaN insensitive"
    r = a == b
    if isinstance(r, Sym):
        return r
    return bool(r)


def req_eq(ctx, a, b, kind, msg):
    ctx.require(eqv(a, b), kind, f"{msg}: {a!r} != {b!r}")


def req_eq_seq(ctx, a, b, kind, msg):
    a, b = list(a), list(b)
    ctx.require(len(a) == len(b), kind, f"{msg}: lengths {len(a)} != {len(b)} ({a!r} vs {b!r})")
    for i, (x, y) in enumerate(zip(a, b)):
        ctx.require(eqv(x, y), kind, f"{msg}: position {i}: {x!r} != {y!r} ({a!r} vs {b!r})")


def contains(seq, v):
    """Membership with forks on symbolic equality (same semantics as `v in list`)."""
    for x in seq:
        if bool(eqv(x, v)):
            return True
    return False


def index_of(seq, v):
    for i, x in enumerate(seq):
        if bool(eqv(x, v)):
            return i
    return None


def neq(a, b):
    e = eqv(a, b)
    return (not e) if isinstance(e, bool) else ~e


def ranking_container(ctx, names, tag="rk", which=None):
    """The user-supplied ranking of an ordinal feature in one of the accepted containers (solver-chosen unless
    `which` is given): list, numpy array, GroupedList, tuple-free dict form {leader: [leader]}."""
    import numpy as np

    from AutoCarver.discretizers import GroupedList

    kinds = ("list", "array", "grouped", "dict")
    k = kinds[ctx.choose(f"{tag}_container", len(kinds))] if which is None else which
    names = list(names)
    if k == "array":
        homogeneous = len({type(n) for n in names}) == 1
        return np.array(names, dtype=None if homogeneous else object)
    if k == "grouped":
        return GroupedList(names)
    if k == "dict":
        return GroupedList({n: [n] for n in names})
    return names


def cells_same(a, b):
    """cell-by-cell identity of two concrete columns, missing values (None / NaN) equal to themselves"""
    if len(a) != len(b):
        return False
    for x, y in zip(a, b):
        if x is y or (x is None and y is None):
            continue
        if x is None or y is None:
            return False
        if isinstance(x, float) and isinstance(y, float) and x != x and y != y:
            continue
        if type(x) != type(y) or not (x == y):
            return False
    return True
