"""API tier: complete real fit / transform through the public classes on a quantitative column of
symbolic reals (every weak ordering of the values, ties included, is a path).  Targets are concrete
per job (all binary patterns / rank patterns form the outer grid), so crosstabs are concrete on each
path and the real scipy measures run unmodified.  Rebindings: R1, R2 (+R3 formatting tokens)."""
from __future__ import annotations

import itertools
import json
import math

import numpy as np
import pandas as pd

from harness.common import contains, eqv
from symx import Obligation, Sym, Violation
from symx.rebind import rebound

NAN = "__NAN__"
ENC_COMMON = [
    "BaseDiscretizer.__init__/fit/transform/_prepare_data/_transform_quantitative/_get_labels_per_values/_remove_feature",
    "Discretizer.fit", "QuantitativeDiscretizer.fit/_prepare_data", "ContinuousDiscretizer.fit", "quantitative_discretizers.fit_feature/find_quantiles/np_find_quantiles",
    "discretizers.min_value_counts", "OrdinalDiscretizer.fit", "find_common_modalities", "find_closest_modality", "convert_to_labels", "convert_to_values",
    "transform_quantitative_feature",
]
ENC_CARVER = ["BaseCarver.fit/_prepare_data/_carve_feature/_get_best_combination/_get_best_association/_test_viability/_update_orders/_remove_feature",
              "BinaryCarver._prepare_data/_aggregator/_grouper/_association_measure/_printer", "ContinuousCarver._prepare_data/_aggregator/_grouper/_association_measure/_printer"]
RB = ["R1 isnan/isfinite (symbolic => finite, not NaN)", "R2 digitize -> searchsorted", "R3 format tokens"]


def feature_column(ctx, vals):
    conc = getattr(ctx, "concrete", False)
    if conc:
        return pd.Series([float(v) for v in vals], dtype=float)
    return pd.Series(list(vals), dtype=object)


def ypatterns(kind, n):
    if kind == "binary":
        return [p for p in itertools.product([0, 1], repeat=n) if 0 < sum(p) < n]
    if kind == "continuous":
        base = [round(0.5 + 0.7 * i, 2) for i in range(n)]
        pats = [tuple(base), tuple(reversed(base)), tuple(base[i] for i in _zigzag(n))]
        tied = list(base)
        if n >= 4:
            tied[1] = tied[0]
            pats.append(tuple(tied))
        return pats
    if kind == "multiclass":
        return [p for p in itertools.product([0, 1, 2], repeat=n) if len(set(p)) == 3]
    raise ValueError(kind)


def _zigzag(n):
    idx = list(range(n))
    out = []
    while idx:
        out.append(idx.pop(0))
        if idx:
            out.append(idx.pop(-1))
    return out


def make_X(ctx, n, n_nan, companions, prefix="x"):
    xs = [ctx.real(f"{prefix}{i}", feature_value=True) for i in range(n)]
    vals = xs + [float("nan")] * n_nan
    N = n + n_nan
    data = {"f": feature_column(ctx, vals)}
    if companions:
        data["q"] = pd.Series((["a", "b", "a", "c", "b", "a", "c", "b"] * 3)[:N], dtype=object)
        data["extra"] = list(range(N))
    X = pd.DataFrame(data)
    X.index = [100 + 3 * i for i in range(N)]
    return X, xs


def build(cls, params, companions):
    from AutoCarver import BinaryCarver, ContinuousCarver, MulticlassCarver
    from AutoCarver.discretizers import Discretizer, QuantitativeDiscretizer
    from AutoCarver.discretizers.utils.quantitative_discretizers import ContinuousDiscretizer

    p = dict(params)
    quali = ["q"] if companions else []
    if cls == "BinaryCarver":
        return BinaryCarver(quantitative_features=["f"], qualitative_features=quali, copy=True, **p)
    if cls == "MulticlassCarver":
        return MulticlassCarver(quantitative_features=["f"], qualitative_features=quali, copy=True, **p)
    if cls == "ContinuousCarver":
        p.pop("sort_by", None)
        return ContinuousCarver(quantitative_features=["f"], qualitative_features=quali, copy=True, **p)
    for k in ("sort_by", "max_n_mod", "min_freq_mod", "dropna", "output_dtype"):
        p.pop(k, None)
    if cls == "Discretizer":
        return Discretizer(quantitative_features=["f"], qualitative_features=quali, copy=True, **p)
    if cls == "QuantitativeDiscretizer":
        return QuantitativeDiscretizer(quantitative_features=["f"], copy=True, **p)
    if cls == "ContinuousDiscretizer":
        return ContinuousDiscretizer(quantitative_features=["f"], copy=True, **p)
    raise ValueError(cls)


def col_equal(a, b):
    """Equality of two output columns (labels may be NaN)."""
    a, b = list(a), list(b)
    if len(a) != len(b):
        return False
    for x, y in zip(a, b):
        xn = isinstance(x, float) and x != x
        yn = isinstance(y, float) and y != y
        if xn or yn:
            if xn != yn:
                return False
            continue
        r = eqv(x, y)
        if isinstance(r, Sym):
            r = bool(r)
        if not r:
            return False
    return True


def snapshot_frame(X):
    return [(c, list(X[c])) for c in X.columns], list(X.index)


def frame_unchanged(X, snap):
    cols, idx = snap
    if list(X.index) != idx or [c for c, _ in cols] != list(X.columns):
        return False
    for c, vals in cols:
        for a, b in zip(list(X[c]), vals):
            if a is b:
                continue
            an = isinstance(a, float) and a != a
            bn = isinstance(b, float) and b != b
            if an and bn:
                continue
            if an != bn:
                return False
            r = eqv(a, b)
            if isinstance(r, Sym):
                r = bool(r)
            if not r:
                return False
    return True


def well_formed_partition(ctx, vo, kind, what):
    leaders = list(vo)
    for a, b in itertools.combinations(leaders, 2):
        r = eqv(a, b)
        ctx.require((not r) if isinstance(r, bool) else ~r, kind, f"{what}: duplicate leader {a!r}")
    ctx.require(len(vo.content) == len(leaders), kind, f"{what}: content keys {list(vo.content)!r} vs leaders {leaders!r}")
    allv = []
    for l in leaders:
        mem = vo.content.get(l)
        ctx.require(mem is not None and contains(mem, l), kind, f"{what}: leader {l!r} not in its own group {mem!r}")
        allv += list(mem)
    for a, b in itertools.combinations(allv, 2):
        r = eqv(a, b)
        ctx.require((not r) if isinstance(r, bool) else ~r, kind, f"{what}: value {a!r} in two groups")
    return leaders, allv


def row_partition(labels):
    """Partition of row positions induced by an output column (NaN = its own block 'nan')."""
    blocks = {}
    for i, l in enumerate(labels):
        key = "nan" if (isinstance(l, float) and l != l) else l
        blocks.setdefault(key, []).append(i)
    return sorted(blocks.values())


def h_fit(ctx, cls, n, n_nan, ypat, params, companions, props):
    try:
        return _h_fit(ctx, cls, n, n_nan, ypat, params, companions, props)
    except Violation as v:
        v.extra = dict(v.extra or {}, cls=cls)
        raise


def _h_fit(ctx, cls, n, n_nan, ypat, params, companions, props):
    X, xs = make_X(ctx, n, n_nan, companions)
    N = n + n_nan
    y = pd.Series(list(ypat)[:N], index=X.index)
    snapX, snapy = snapshot_frame(X), list(y)
    obj = build(cls, params, companions)
    is_carver = "Carver" in cls
    with rebound(ctx, ["R1", "R2"]):
        try:
            obj.fit(X, y)
            fitted = True
        except Violation:
            raise
        except AssertionError as e:
            fitted = False
            msg = str(e)
        except Exception as e:
            import traceback
            ctx.require(False, "C08.internal-error", f"{cls}.fit raised {type(e).__name__}: {str(e)[:160]} | {traceback.format_exc(limit=-2)[-400:]}")
        if not fitted:
            # a clean refusal is allowed by C08; it must leave the caller's data alone
            ctx.require(frame_unchanged(X, snapX), "C07.input-mutated", "fit refused the sample but modified X")
            return dict(counters={"assertion": 1}, sample=dict(cls=cls, ypat=ypat, outcome="AssertionError", msg=msg[:80]), result=dict(outcome="AssertionError"))
        kept = "f" in obj.features
        res = dict(outcome="fitted", kept=kept)
        # ------------------------------------------------------------------ C08 coherence
        feats = list(obj.features)
        if "C08" in props or "C16" in props:
            for attr in ("values_orders", "input_dtypes", "labels_per_values", "features_dropna"):
                keys = set(getattr(obj, attr).keys())
                ctx.require(keys == set(feats), "C08.attributes-incoherent", f"{cls}.{attr} keys {sorted(keys)} != features {sorted(feats)}")
            casted = sorted(c for cs in obj.features_casting.values() for c in cs)
            ctx.require(casted == sorted(feats), "C08.attributes-incoherent", f"features_casting {obj.features_casting} != features {feats}")
            ctx.require(sorted(obj.quantitative_features + obj.qualitative_features) == sorted(feats), "C08.attributes-incoherent", "quantitative/qualitative lists != features")
            if is_carver:
                hist = obj.history()
                ctx.require(hist is not None, "C08.history", "history() is None on a fitted carver")
        if kept and ("C08" in props or "C03" in props or "C09" in props):
            vo = obj.values_orders["f"]
            leaders, allv = well_formed_partition(ctx, vo, "C08.partition", f"{cls}.values_orders['f']")
            qs = [v for v in leaders if not (isinstance(v, str))]
            for a, b in zip(qs, qs[1:]):
                ctx.require(a < b, "C03.boundaries-not-sorted", f"leaders not strictly increasing: {leaders!r}")
            ctx.require(len(qs) >= 1 and isinstance(qs[-1], float) and qs[-1] == float("inf"), "C03.inf-sentinel", f"last numeric leader is not +inf: {leaders!r}")
            if n_nan:
                ctx.require(vo.contains(NAN), "C08.coverage", "training NaN not covered by values_orders")
            for v in allv:
                if isinstance(v, str) or (isinstance(v, float) and v == float("inf")):
                    continue
                ctx.require(contains(xs, v), "C03.boundary-not-observed", f"boundary {v!r} is not a training value")
        # ------------------------------------------------------------------ transform of the training frame
        try:
            out = obj.transform(X)
        except Violation:
            raise
        except Exception as e:
            ctx.require(False, "C08.transform-after-fit", f"{cls}.transform(X_train) raised {type(e).__name__}: {str(e)[:160]}")
        col = list(out["f"]) if "f" in out else None
        if "C07" in props or "C08" in props:
            ctx.require(frame_unchanged(X, snapX), "C07.input-mutated", f"{cls}: fit/transform modified the caller's X (copy=True)")
            ctx.require(list(y) == snapy, "C07.input-mutated", "y modified")
            ctx.require(list(out.index) == list(X.index) and list(out.columns) == list(X.columns), "C07.index-columns", "output index/columns differ from X")
            if companions:
                ctx.require(list(out["extra"]) == list(X["extra"]), "C07.non-feature-column", "non-feature column changed")
        if not kept:
            if "C08" in props:
                ctx.require(col_equal(col, list(X["f"])), "C08.dropped-feature-touched", "a dropped feature's column was modified by transform")
            res["partition"] = None
        else:
            lpv = obj.labels_per_values["f"]
            fitted_labels = []
            for l in lpv.values():
                if not contains(fitted_labels, l):
                    fitted_labels.append(l)
            dropna = getattr(obj, "dropna", True)
            part = row_partition(col)
            res["partition"] = part
            res["n_labels"] = len(part)
            if "C05" in props or "C08" in props:
                for i, o in enumerate(col):
                    if isinstance(o, float) and o != o:
                        ctx.require(i >= n and not obj.features_dropna.get("f", True), "C05.raw-value-leak", f"row {i}: output NaN")
                        continue
                    ctx.require(contains(fitted_labels, o), "C05.raw-value-leak", f"row {i}: output {o!r} is not a fitted label {fitted_labels!r}")
            if "C03" in props and is_carver and params.get("output_dtype", "str") == "float":
                for i, j in itertools.combinations(range(n), 2):
                    if bool(xs[i] <= xs[j]):
                        ctx.require(col[i] <= col[j], "C03.not-monotone", f"x{i} <= x{j} but labels {col[i]!r} > {col[j]!r}")
            if "C02" in props and is_carver:
                check_c02(ctx, obj, col, n, n_nan, list(y), params)
            if "C09" in props and not is_carver:
                check_c09(ctx, cls, obj, col, n, n_nan, params)
        # ------------------------------------------------------------------ C07: coherence of fit_transform / repeated / subset transforms
        if "C07" in props:
            obj2 = build(cls, params, companions)
            out2 = obj2.fit_transform(X, y)
            ctx.require(("f" in obj2.features) == kept, "C07.fit-transform-differs", "fit_transform keeps/drops the feature differently from fit")
            ctx.require(col_equal(list(out2["f"]), col), "C07.fit-transform-differs", f"fit_transform(X,y)['f'] {list(out2['f'])!r} != fit(X,y).transform(X)['f'] {col!r}")
            if kept:
                vo_snap = json.dumps([[repr(k), [repr(v) for v in obj.values_orders["f"].content[k]]] for k in obj.values_orders["f"]])
                lp_snap = repr(obj.labels_per_values)
                # a solver-chosen permutation / subset / re-indexing of the rows
                # rows reversed, one solver-chosen row dropped, index relabelled (the exhaustive row-purity
                # argument over symbolic rows is the kernel obligation O7.2)
                drop = ctx.choose("drop_row", N)
                keep = [r for r in reversed(range(N)) if r != drop]
                Xs = X.iloc[keep].copy()
                Xs.index = [int(i) * 2 + 7 for i in Xs.index]
                outs = obj.transform(Xs)
                ctx.require(col_equal(list(outs["f"]), [col[r] for r in keep]), "C07.row-purity", f"transform of rows {keep} != corresponding rows of the full result")
                ctx.require(list(outs.index) == list(Xs.index), "C07.index-columns", "index not kept on the re-indexed subset")
                out3 = obj.transform(X)
                ctx.require(col_equal(list(out3["f"]), col), "C07.repeat-transform", "second transform of the same frame differs")
                vo_snap2 = json.dumps([[repr(k), [repr(v) for v in obj.values_orders["f"].content[k]]] for k in obj.values_orders["f"]])
                ctx.require(vo_snap2 == vo_snap and repr(obj.labels_per_values) == lp_snap, "C07.state-mutated-by-transform", "transform altered the fitted state")
        # ------------------------------------------------------------------ C05: fresh unseen rows
        if "C05" in props and kept:
            z1 = ctx.real("z1", feature_value=True)
            Z = pd.DataFrame({c: X[c].iloc[:1].tolist() for c in X.columns})
            Z["f"] = feature_column(ctx, [z1])
            try:
                oz = list(obj.transform(Z)["f"])
            except AssertionError as e:
                ctx.require(False, "C05.valid-frame-rejected", f"finite unseen value rejected: {str(e)[:100]}")
            except Violation:
                raise
            except Exception as e:
                ctx.require(False, "C05.internal-error", f"transform(unseen) raised {type(e).__name__}: {str(e)[:100]}")
            ctx.require(contains(fitted_labels, oz[0]), "C05.raw-value-leak", f"unseen value got {oz[0]!r}, not a fitted label")
            if not n_nan:
                Zn = Z.copy()
                Zn["f"] = feature_column(ctx, [float("nan")])
                try:
                    obj.transform(Zn)
                    ctx.require(False, "C05.unexpected-nan-accepted", "NaN accepted at transform although none was seen at fit")
                except AssertionError as e:
                    ctx.require("'f'" in str(e), "C05.error-does-not-name-feature", str(e)[:120])
                except Violation:
                    raise
                except Exception as e:
                    ctx.require(False, "C05.internal-error", f"transform(NaN) raised {type(e).__name__}: {str(e)[:100]}")
        # ------------------------------------------------------------------ C01: end-to-end optimality against a brute-force oracle
        if "C01" in props and is_carver and cls != "MulticlassCarver":
            check_c01(ctx, cls, obj, X, y, xs, n, n_nan, params, kept, col)
        # ------------------------------------------------------------------ C06: JSON round trip on this path's fitted object
        if "C06" in props:
            check_c06(ctx, cls, obj, X, col, kept, is_carver)
        if "C16" in props:
            check_c16(ctx, cls, obj, X, col, kept, is_carver, companions)
    return dict(counters={"fitted": 1, "kept": int(kept)}, sample=dict(cls=cls, ypat=ypat, x=xs, kept=kept, out=[("nan" if isinstance(c, float) and c != c else ("label" if isinstance(c, str) else c)) for c in (col or [])] if kept else None),
                result=res)


# ----------------------------------------------------------------------------- property-specific oracles
def check_c02(ctx, obj, col, n, n_nan, y, params):
    """C02 stated literally on the transformed training frame."""
    max_n_mod = params.get("max_n_mod", 5)
    mfm = obj.min_freq_mod
    dropna = params.get("dropna", True)
    nn = [(c, yy) for c, yy in zip(col, y) if not (isinstance(c, float) and c != c)]
    labels = []
    for c, _ in nn:
        if not contains(labels, c):
            labels.append(c)
    ctx.require(len(labels) <= max_n_mod, "C02.too-many-groups", f"{len(labels)} distinct labels > max_n_mod={max_n_mod}")
    base = len(nn)
    for l in labels:
        cnt = sum(1 for c, _ in nn if bool(eqv(c, l)))
        ctx.require(cnt / base >= mfm, "C02.constraint-violated", f"label {l!r} carried by {cnt}/{base} rows < min_freq_mod={mfm!r}")
    n_missing_out = sum(1 for c in col if isinstance(c, float) and c != c)
    if dropna:
        ctx.require(n_missing_out == 0, "C02.nan-left", "dropna=True but the output has missing values")
    else:
        ctx.require(n_missing_out == n_nan and all(isinstance(c, float) and c != c for c in col[n:]), "C02.nan-not-preserved", "dropna=False: missing values not preserved in place")


def check_c09(ctx, cls, obj, col, n, n_nan, params):
    """every bucket of a quantitative feature holds >= min_freq/2 of the rows unless one remains"""
    mf = params["min_freq"]
    N = n + n_nan
    nn = [c for c in col[:n]]
    labels = []
    for c in nn:
        if not contains(labels, c):
            labels.append(c)
    if cls in ("QuantitativeDiscretizer", "Discretizer") and len(labels) > 1:
        for l in labels:
            cnt = sum(1 for c in nn if bool(eqv(c, l)))
            ctx.require(cnt / N >= mf / 2, "C09.quantitative-bucket-below-half-min-freq", f"bucket {l!r} holds {cnt}/{N} rows < min_freq/2 = {mf / 2} while {len(labels)} buckets remain")
    if n_nan:
        out_nan = col[n:]
        ctx.require(all(bool(eqv(o, out_nan[0])) for o in out_nan) and not contains(labels, out_nan[0]), "C09.nan-merged", "missing values must remain a separate modality after base discretization")


def _measure(cls, sort_by, groups_y):
    """Independent recomputation of the association measure for a grouping (lists of y per group)."""
    from scipy.stats import chi2_contingency, kruskal

    if cls == "ContinuousCarver":
        try:
            return float(kruskal(*[list(g) for g in groups_y])[0])
        except ValueError:
            return float("nan")
    tab = [[sum(1 for v in g if v == 0), sum(1 for v in g if v == 1)] for g in groups_y]
    if any(sum(r) == 0 for r in tab) or sum(r[0] for r in tab) == 0 or sum(r[1] for r in tab) == 0:
        chi2 = 0.0
    else:
        chi2 = chi2_contingency(np.array(tab))[0]
    n_obs = sum(sum(r) for r in tab)
    v = math.sqrt(chi2 / n_obs)
    if sort_by == "tschuprowt":
        return v / math.sqrt(math.sqrt(len(tab) - 1))
    return v


def _rate(g):
    return sum(g) / len(g)


def _viable(groups_y, total, mfm):
    if any(len(g) == 0 for g in groups_y):
        return False
    if any(len(g) / total < mfm for g in groups_y):
        return False
    rates = [_rate(g) for g in groups_y]
    return not any(np.isclose(a, b) for a, b in zip(rates, rates[1:]))


def _contig(k, lo, hi):
    out = []
    for g in range(lo, hi + 1):
        for cuts in itertools.combinations(range(1, k), g - 1):
            b = [0] + list(cuts) + [k]
            out.append([list(range(b[i], b[i + 1])) for i in range(len(b) - 1)])
    return out


def check_c01(ctx, cls, obj, X, y, xs, n, n_nan, params, kept, col):
    """Brute force over the base buckets of an independently fitted Discretizer (same parameters)."""
    from AutoCarver.discretizers import Discretizer

    sort_by = params.get("sort_by", "kruskal")
    max_n_mod = params.get("max_n_mod", 5)
    dropna = params.get("dropna", True)
    mfm = obj.min_freq_mod
    d = Discretizer(quantitative_features=["f"], qualitative_features=[], min_freq=params["min_freq"], copy=True)
    d.fit(X, y)
    if "f" not in d.features:
        ctx.require(not kept, "C01.kept-without-base", "carver kept a feature the base Discretizer dropped")
        return
    base_col = list(d.transform(X)["f"])
    base_labels = [l for l in d.labels_per_values["f"].values()]
    order = []
    for l in base_labels:
        if l not in order:
            order.append(l)
    nn_order = [l for l in order if l != NAN]
    yl = list(y)
    buckets = [[yl[i] for i in range(len(base_col)) if base_col[i] == l] for l in nn_order]
    rows_of = [[i for i in range(len(base_col)) if base_col[i] == l] for l in nn_order]
    nan_y = [yl[i] for i in range(len(base_col)) if base_col[i] == NAN]
    nan_rows = [i for i in range(len(base_col)) if base_col[i] == NAN]
    k = len(nn_order)
    nn_total = sum(len(b) for b in buckets)
    best1 = []
    if k >= 2 and (len(order) > 1):
        cands = []
        for p in _contig(k, 2, max_n_mod):
            gy = [[v for i in g for v in buckets[i]] for g in p]
            if _viable(gy, nn_total, mfm):
                m = _measure(cls, sort_by, gy)
                if m == m:
                    cands.append((m, p))
        if cands:
            top = max(m for m, _ in cands)
            best1 = [p for m, p in cands if np.isclose(m, top, rtol=1e-9, atol=1e-12)]
    expected_parts = []
    if best1:
        for p in best1:
            if dropna and nan_rows:
                # stage 2 over the stage-1 groups
                g1 = p
                c2 = []
                for q in _contig(len(g1), 2, max_n_mod):
                    merged = [[i for gi in grp for i in g1[gi]] for grp in q]
                    for pos in range(len(merged) + 1):
                        if pos == len(merged) and len(merged) >= max_n_mod:
                            continue
                        gy = [[v for i in g for v in buckets[i]] for g in merged]
                        rows = [[r for i in g for r in rows_of[i]] for g in merged]
                        if pos == len(merged):
                            gy, rows = gy + [list(nan_y)], rows + [list(nan_rows)]
                            strict_ok = _viable(gy, nn_total + len(nan_y), mfm)
                            weak_ok = _viable(gy[:-1], nn_total + len(nan_y), mfm) and len(nan_y) / (nn_total + len(nan_y)) >= mfm
                        else:
                            gy = [g + (list(nan_y) if i == pos else []) for i, g in enumerate(gy)]
                            rows = [g + (list(nan_rows) if i == pos else []) for i, g in enumerate(rows)]
                            strict_ok = weak_ok = _viable(gy, nn_total + len(nan_y), mfm)
                        if weak_ok:
                            m = _measure(cls, sort_by, gy)
                            if m == m:
                                c2.append((m, sorted(sorted(r) for r in rows), strict_ok))
                if c2:
                    strict = [c for c in c2 if c[2]]
                    top_strict = max((m for m, _, s in strict), default=None)
                    for m, part, s in c2:
                        # acceptable results: any weakly-viable placement at least as good as the best strictly-viable one
                        if top_strict is None or m >= top_strict - 1e-12:
                            expected_parts.append(part)
                    if not strict:
                        expected_parts.append(None)  # dropping is acceptable when nothing is strictly viable
                else:
                    expected_parts.append(None)
            else:
                part = [[r for i in g for r in rows_of[i]] for g in p]
                if nan_rows:
                    part = part + [list(nan_rows)]
                expected_parts.append(sorted(sorted(r) for r in part))
    else:
        expected_parts.append(None)
    got = row_partition(col) if kept else None
    ok = any((e is None and got is None) or (e is not None and got is not None and e == got) for e in expected_parts)
    ctx.require(ok, "C01.api-not-optimal" if got is not None else "C01.api-dropped-although-viable",
                f"{cls}: fitted row partition {got} is not among the optimal viable groupings {expected_parts} of the base buckets {rows_of} (+NaN rows {nan_rows}); y={yl}, min_freq_mod={mfm}, max_n_mod={max_n_mod}, sort_by={sort_by}")


def check_c06(ctx, cls, obj, X, col, kept, is_carver):
    """JSON round trip of the model-concretised fitted object (concrete witnesses of every path)."""
    if not getattr(ctx, "concrete", False):
        return  # executed in the concrete twin of each sampled path (real json on real floats)
    from AutoCarver import load_carver
    from AutoCarver.discretizers.utils.base_discretizers import load_discretizer

    js = json.dumps(obj.to_json())
    loaded = (load_carver if is_carver else load_discretizer)(json.loads(js))
    out1 = obj.transform(X)
    out2 = loaded.transform(X)
    for c in out1.columns:
        ctx.require(col_equal(list(out1[c]), list(out2[c])), "C06.transform-differs-after-reload", f"column {c}: {list(out1[c])} vs {list(out2[c])}", dict(concrete_only=True))
    if obj.features:
        s1, s2 = obj.summary().reset_index().to_dict("records"), loaded.summary().reset_index().to_dict("records")
        ctx.require(json.dumps(s1, default=str) == json.dumps(s2, default=str), "C06.summary-differs-after-reload", f"{s1} vs {s2}", dict(concrete_only=True))
    js2 = json.dumps(loaded.to_json())
    a, b = json.loads(js), json.loads(js2)
    a.pop("_history", None), b.pop("_history", None)
    for k_ in ("values_orders",):
        a[k_], b[k_] = json.loads(a[k_]), json.loads(b[k_])
    ctx.require(a == b, "C06.reserialisation-differs", f"{a} vs {b}", dict(concrete_only=True))


def check_c16(ctx, cls, obj, X, col, kept, is_carver, companions):
    feats = sorted(obj.features)
    if feats:
        s = obj.summary()
        listed = sorted(set(s.index.get_level_values(0)))
        ctx.require(listed == feats, "C16.summary-features", f"summary lists {listed}, kept features are {feats}")
        if kept:
            sf = obj.summary("f")
            ctx.require(set(sf.index.get_level_values(0)) == {"f"}, "C16.summary-other-feature", "summary('f') has rows of another feature")
            nlab = len(row_partition([c for c in col if not (isinstance(c, float) and c != c)]))
            groups = [l for l in obj.values_orders["f"]]
            ctx.require(len(sf) in (len(groups), len(groups) - (1 if obj.values_orders["f"].contains(NAN) and NAN in groups and not obj.dropna else 0)),
                        "C16.summary-rows", f"summary('f') has {len(sf)} rows for {len(groups)} fitted groups")
    if is_carver and cls != "MulticlassCarver":
        h = obj._history.get("f", [])
        if kept:
            viable = [e for e in h if e.get("viability") is True]
            ctx.require(len(viable) >= 1, "C16.history-viable-count", "kept feature without a viable combination in its history")
            last = viable[-1]["combination"]
            # the last viable combination (groups of base-bucket labels) induces the fitted row partition
            from AutoCarver.discretizers import Discretizer

            d = Discretizer(quantitative_features=["f"], qualitative_features=[], min_freq=obj.min_freq, copy=True)
            d.fit(X[["f"]], pd.Series([0, 1] * len(X), index=None).iloc[: len(X)].set_axis(X.index))
            base_col = list(d.transform(X[["f"]])["f"])
            blocks = []
            for grp in last:
                rows = sorted(i for i, l in enumerate(base_col) if l in grp)
                if rows:
                    blocks.append(rows)
            nan_rows = [i for i, l in enumerate(base_col) if l == NAN]
            covered = sorted(i for b_ in blocks for i in b_)
            if nan_rows and not any(set(nan_rows) <= set(b_) for b_ in blocks):
                blocks.append(nan_rows)
            ctx.require(sorted(blocks) == row_partition(col), "C16.history-viable-is-not-fitted",
                        f"last viable combination {last} induces row blocks {sorted(blocks)}, the fitted transform gives {row_partition(col)}")
            raw = [e for e in h if e.get("viability") is None and e.get("viability_message") == ["Raw X distribution"]]
            ctx.require(len(raw) == 1, "C16.history-raw-distribution", f"{len(raw)} raw-distribution entries in the history")


# ----------------------------------------------------------------------------- jobs
def jobs(tier, props, classes, *, companions=False, ns=None, param_grid=None, nan_opts=(0, 1), max_pats=None):
    quick = tier == "quick"
    out = []
    for cls in classes:
        kind = "continuous" if cls == "ContinuousCarver" else ("multiclass" if cls == "MulticlassCarver" else "binary")
        for n in (ns or ([4] if quick else [4, 5])):
            for n_nan in nan_opts:
                pats = ypatterns(kind, n + n_nan)
                cap = max_pats or (14 if quick else 30)
                if len(pats) > cap:
                    step = len(pats) / cap
                    pats = [pats[int(i * step)] for i in range(cap)]
                for params in (param_grid or default_params(cls, quick)):
                    if n_nan == 0 and params.get("dropna") is False:
                        continue
                    for ypat in pats:
                        out.append(dict(cls=cls, n=n, n_nan=n_nan, ypat=ypat, params=params, companions=companions, props=sorted(props)))
    return out


def default_params(cls, quick):
    if "Carver" in cls:
        g = [dict(min_freq=0.5, sort_by="cramerv", max_n_mod=2, output_dtype="float", dropna=True),
             dict(min_freq=0.25, sort_by="tschuprowt", max_n_mod=3, output_dtype="str", dropna=True),
             dict(min_freq=0.25, sort_by="cramerv", max_n_mod=3, output_dtype="float", dropna=False)]
        if not quick:
            g += [dict(min_freq=0.34, sort_by="cramerv", max_n_mod=3, output_dtype="float", dropna=True, min_freq_mod=0.25),
                  dict(min_freq=0.15, sort_by="tschuprowt", max_n_mod=4, output_dtype="float", dropna=True)]
        return g
    return [dict(min_freq=0.5), dict(min_freq=0.25)] + ([] if quick else [dict(min_freq=0.34), dict(min_freq=0.15)])


def obligation(tier, props, name, classes, **kw):
    quick = tier == "quick"
    js = jobs(tier, props, classes, **kw)
    return Obligation(
        name=name, harness=h_fit, jobs=js, encodes=ENC_COMMON + (ENC_CARVER if any("Carver" in c for c in classes) else []), rebindings=RB,
        bounds=f"classes {classes}; quantitative column of n={kw.get('ns') or ([4] if quick else [4, 5])} symbolic reals (all weak orderings incl. ties) + 0/1 NaN row; "
               f"every binary target pattern (sampled beyond 14) / 4 continuous rank patterns; parameter grid {kw.get('param_grid') or 'default (min_freq .5/.25[/.34/.15], max_n_mod 2-4, both sort_by, both output dtypes, dropna T/F)'}",
        outside="more than 5-6 rows; verbose printing; n_jobs>1 (C10)",
        twin_every=11, budget_s=6.0,
    )
