"""API tier: complete real fit / transform through the public classes on a quantitative column of
symbolic reals (every weak ordering of the values, ties included, is a path).  Targets are concrete
per job (all binary patterns / rank patterns form the outer grid), so crosstabs are concrete on each
path and the real scipy measures run unmodified.  Rebindings: R1, R2 (+R3 formatting tokens)."""
from __future__ import annotations

import itertools
import json
import math

import numpy as np
import pandas as pd

from harness.common import cells_same, contains, eqv
from symx import Obligation, Sym, Violation
from symx.rebind import rebound

NAN = "__NAN__"
ENC_COMMON = [
    "BaseDiscretizer.__init__/fit/transform/_prepare_data/_transform_quantitative/_get_labels_per_values/_remove_feature",
    "Discretizer.fit", "QuantitativeDiscretizer.fit/_prepare_data", "ContinuousDiscretizer.fit", "quantitative_discretizers.fit_feature/find_quantiles/np_find_quantiles",
    "discretizers.min_value_counts", "OrdinalDiscretizer.fit", "find_common_modalities", "find_closest_modality", "convert_to_labels", "convert_to_values",
    "transform_quantitative_feature",
]
ENC_CARVER = ["BaseCarver.fit/_prepare_data/_carve_feature/_get_best_combination/_get_best_association/_test_viability/_update_orders/_remove_feature",
              "BinaryCarver._prepare_data/_aggregator/_grouper/_association_measure/_printer", "ContinuousCarver._prepare_data/_aggregator/_grouper/_association_measure/_printer"]
RB = ["R1 isnan/isfinite (symbolic => finite, not NaN)", "R2 digitize -> searchsorted", "R3 format tokens"]


def feature_column(ctx, vals):
    conc = getattr(ctx, "concrete", False)
    if conc:
        return pd.Series([float(v) for v in vals], dtype=float)
    return pd.Series(list(vals), dtype=object)


def ypatterns(kind, n):
    if kind == "binary":
        return [p for p in itertools.product([0, 1], repeat=n) if 0 < sum(p) < n]
    if kind == "continuous":
        base = [round(0.5 + 0.7 * i, 2) for i in range(n)]
        pats = [tuple(base), tuple(reversed(base)), tuple(base[i] for i in _zigzag(n))]
        tied = list(base)
        if n >= 4:
            tied[1] = tied[0]
            pats.append(tuple(tied))
        return pats
    if kind == "multiclass":
        return [p for p in itertools.product([0, 1, 2], repeat=n) if len(set(p)) == 3]
    raise ValueError(kind)


def _zigzag(n):
    idx = list(range(n))
    out = []
    while idx:
        out.append(idx.pop(0))
        if idx:
            out.append(idx.pop(-1))
    return out


def make_X(ctx, n, n_nan, companions, prefix="x"):
    xs = [ctx.real(f"{prefix}{i}", feature_value=True) for i in range(n)]
    vals = xs + [float("nan")] * n_nan
    N = n + n_nan
    data = {"f": feature_column(ctx, vals)}
    if companions:
        data["q"] = pd.Series((["a", "b", "a", "c", "b", "a", "c", "b"] * 3)[:N], dtype=object)
        data["extra"] = list(range(N))
        # non-feature columns holding missing values (seed5-C07)
        data["extra_nan"] = [float("nan") if i % 3 == 0 else float(i) for i in range(N)]
        data["extra_obj"] = pd.Series([None if i % 3 == 1 else "x" for i in range(N)], dtype=object)
    X = pd.DataFrame(data)
    X.index = [100 + 3 * i for i in range(N)]
    return X, xs


def build(cls, params, companions):
    from AutoCarver import BinaryCarver, ContinuousCarver, MulticlassCarver
    from AutoCarver.discretizers import Discretizer, QuantitativeDiscretizer
    from AutoCarver.discretizers.utils.quantitative_discretizers import ContinuousDiscretizer

    p = dict(params)
    quali = ["q"] if companions else []
    if cls == "BinaryCarver":
        return BinaryCarver(quantitative_features=["f"], qualitative_features=quali, copy=True, **p)
    if cls == "MulticlassCarver":
        return MulticlassCarver(quantitative_features=["f"], qualitative_features=quali, copy=True, **p)
    if cls == "ContinuousCarver":
        p.pop("sort_by", None)
        return ContinuousCarver(quantitative_features=["f"], qualitative_features=quali, copy=True, **p)
    for k in ("sort_by", "max_n_mod", "min_freq_mod", "dropna", "output_dtype"):
        p.pop(k, None)
    if cls == "Discretizer":
        return Discretizer(quantitative_features=["f"], qualitative_features=quali, copy=True, **p)
    if cls == "QuantitativeDiscretizer":
        return QuantitativeDiscretizer(quantitative_features=["f"], copy=True, **p)
    if cls == "ContinuousDiscretizer":
        return ContinuousDiscretizer(quantitative_features=["f"], copy=True, **p)
    raise ValueError(cls)


def col_equal(a, b):
    """Equality of two output columns (labels may be NaN)."""
    a, b = list(a), list(b)
    if len(a) != len(b):
        return False
    for x, y in zip(a, b):
        xn = isinstance(x, float) and x != x
        yn = isinstance(y, float) and y != y
        if xn or yn:
            if xn != yn:
                return False
            continue
        r = eqv(x, y)
        if isinstance(r, Sym):
            r = bool(r)
        if not r:
            return False
    return True


def snapshot_frame(X):
    return [(c, list(X[c])) for c in X.columns], list(X.index)


def frame_unchanged(X, snap):
    cols, idx = snap
    if list(X.index) != idx or [c for c, _ in cols] != list(X.columns):
        return False
    for c, vals in cols:
        for a, b in zip(list(X[c]), vals):
            if a is b:
                continue
            an = isinstance(a, float) and a != a
            bn = isinstance(b, float) and b != b
            if an and bn:
                continue
            if an != bn:
                return False
            r = eqv(a, b)
            if isinstance(r, Sym):
                r = bool(r)
            if not r:
                return False
    return True


def well_formed_partition(ctx, vo, kind, what):
    leaders = list(vo)
    for a, b in itertools.combinations(leaders, 2):
        r = eqv(a, b)
        ctx.require((not r) if isinstance(r, bool) else ~r, kind, f"{what}: duplicate leader {a!r}")
    ctx.require(len(vo.content) == len(leaders), kind, f"{what}: content keys {list(vo.content)!r} vs leaders {leaders!r}")
    allv = []
    for l in leaders:
        mem = vo.content.get(l)
        ctx.require(mem is not None and contains(mem, l), kind, f"{what}: leader {l!r} not in its own group {mem!r}")
        allv += list(mem)
    for a, b in itertools.combinations(allv, 2):
        r = eqv(a, b)
        ctx.require((not r) if isinstance(r, bool) else ~r, kind, f"{what}: value {a!r} in two groups")
    return leaders, allv


def row_partition(labels):
    """Partition of row positions induced by an output column (NaN = its own block 'nan')."""
    blocks = {}
    for i, l in enumerate(labels):
        key = "nan" if (isinstance(l, float) and l != l) else l
        blocks.setdefault(key, []).append(i)
    return sorted(blocks.values())


def h_fit(ctx, cls, n, n_nan, ypat, params, companions, props, dev_ypat=None):
    try:
        return _h_fit(ctx, cls, n, n_nan, ypat, params, companions, props, dev_ypat)
    except Violation as v:
        v.extra = dict(v.extra or {}, cls=cls)
        raise


def _h_fit(ctx, cls, n, n_nan, ypat, params, companions, props, dev_ypat=None):
    X, xs = make_X(ctx, n, n_nan, companions)
    N = n + n_nan
    y = pd.Series(list(ypat)[:N], index=X.index)
    snapX, snapy = snapshot_frame(X), list(y)
    obj = build(cls, params, companions)
    is_carver = "Carver" in cls
    fit_kw, dev = {}, None
    if dev_ypat is not None and is_carver:
        X_dev = X.iloc[::-1].copy()
        X_dev.index = [500 + i for i in range(N)]
        y_dev = pd.Series(list(dev_ypat)[:N], index=X_dev.index)
        fit_kw, dev = dict(X_dev=X_dev, y_dev=y_dev), (X_dev, y_dev)
        snapD = snapshot_frame(X_dev)
    with rebound(ctx, ["R1", "R2"]):
        try:
            obj.fit(X, y, **fit_kw)
            fitted = True
        except Violation:
            raise
        except AssertionError as e:
            fitted = False
            msg = str(e)
        except Exception as e:
            import traceback
            ctx.require(False, "C08.internal-error", f"{cls}.fit raised {type(e).__name__}: {str(e)[:160]} | {traceback.format_exc(limit=-2)[-400:]}")
        if not fitted:
            # a clean refusal is allowed by C08; it must leave the caller's data alone
            ctx.require(frame_unchanged(X, snapX), "C07.input-mutated", "fit refused the sample but modified X")
            return dict(counters={"assertion": 1}, sample=dict(cls=cls, ypat=ypat, outcome="AssertionError", msg=msg[:80]), result=dict(outcome="AssertionError"))
        kept = "f" in obj.features
        res = dict(outcome="fitted", kept=kept)
        # ------------------------------------------------------------------ C08 coherence
        feats = list(obj.features)
        if "C08" in props or "C16" in props:
            for attr in ("values_orders", "input_dtypes", "labels_per_values", "features_dropna"):
                keys = set(getattr(obj, attr).keys())
                ctx.require(keys == set(feats), "C08.attributes-incoherent", f"{cls}.{attr} keys {sorted(keys)} != features {sorted(feats)}")
            casted = sorted(c for cs in obj.features_casting.values() for c in cs)
            ctx.require(casted == sorted(feats), "C08.attributes-incoherent", f"features_casting {obj.features_casting} != features {feats}")
            ctx.require(sorted(obj.quantitative_features + obj.qualitative_features) == sorted(feats), "C08.attributes-incoherent", "quantitative/qualitative lists != features")
            if is_carver:
                hist = obj.history()
                ctx.require(hist is not None, "C08.history", "history() is None on a fitted carver")
        if kept and ("C08" in props or "C03" in props or "C09" in props):
            vo = obj.values_orders["f"]
            leaders, allv = well_formed_partition(ctx, vo, "C08.partition", f"{cls}.values_orders['f']")
            qs = [v for v in leaders if not (isinstance(v, str))]
            for a, b in zip(qs, qs[1:]):
                ctx.require(a < b, "C03.boundaries-not-sorted", f"leaders not strictly increasing: {leaders!r}")
            ctx.require(len(qs) >= 1 and isinstance(qs[-1], float) and qs[-1] == float("inf"), "C03.inf-sentinel", f"last numeric leader is not +inf: {leaders!r}")
            if n_nan:
                ctx.require(vo.contains(NAN), "C08.coverage", "training NaN not covered by values_orders")
            for v in allv:
                if isinstance(v, str) or (isinstance(v, float) and v == float("inf")):
                    continue
                ctx.require(contains(xs, v), "C03.boundary-not-observed", f"boundary {v!r} is not a training value")
        # ------------------------------------------------------------------ transform of the training frame
        try:
            out = obj.transform(X)
        except Violation:
            raise
        except Exception as e:
            ctx.require(False, "C08.transform-after-fit", f"{cls}.transform(X_train) raised {type(e).__name__}: {str(e)[:160]}")
        col = list(out["f"]) if "f" in out else None
        if "C07" in props or "C08" in props:
            ctx.require(frame_unchanged(X, snapX), "C07.input-mutated", f"{cls}: fit/transform modified the caller's X (copy=True)")
            ctx.require(list(y) == snapy, "C07.input-mutated", "y modified")
            if dev is not None:
                ctx.require(frame_unchanged(dev[0], snapD), "C07.input-mutated", f"{cls}: fit modified the caller's X_dev (copy=True)")
            ctx.require(list(out.index) == list(X.index) and list(out.columns) == list(X.columns), "C07.index-columns", "output index/columns differ from X")
            if companions:
                ctx.require(list(out["extra"]) == list(X["extra"]), "C07.non-feature-column", "non-feature column changed")
                for oc in ("extra_nan", "extra_obj"):
                    ctx.require(cells_same(list(out[oc]), list(X[oc])), "C07.non-feature-column", f"non-feature column {oc} (with missing values) changed: {list(out[oc])!r}")
        if not kept:
            if "C08" in props:
                ctx.require(col_equal(col, list(X["f"])), "C08.dropped-feature-touched", "a dropped feature's column was modified by transform")
            res["partition"] = None
        else:
            lpv = obj.labels_per_values["f"]
            fitted_labels = []
            for l in lpv.values():
                if not contains(fitted_labels, l):
                    fitted_labels.append(l)
            dropna = getattr(obj, "dropna", True)
            part = row_partition(col)
            res["partition"] = part
            res["n_labels"] = len(part)
            if "C05" in props or "C08" in props:
                for i, o in enumerate(col):
                    if isinstance(o, float) and o != o:
                        ctx.require(i >= n and not obj.features_dropna.get("f", True), "C05.raw-value-leak", f"row {i}: output NaN")
                        continue
                    ctx.require(contains(fitted_labels, o), "C05.raw-value-leak", f"row {i}: output {o!r} is not a fitted label {fitted_labels!r}")
            if "C03" in props and is_carver and params.get("output_dtype", "str") == "float":
                for i, j in itertools.combinations(range(n), 2):
                    if bool(xs[i] <= xs[j]):
                        ctx.require(col[i] <= col[j], "C03.not-monotone", f"x{i} <= x{j} but labels {col[i]!r} > {col[j]!r}")
            if "C02" in props and is_carver:
                check_c02(ctx, obj, col, n, n_nan, list(y), params)
                if dev is not None:
                    check_c02_dev(ctx, obj, col, list(y), dev, params)
            if "C09" in props and not is_carver:
                check_c09(ctx, cls, obj, col, n, n_nan, params)
        # ------------------------------------------------------------------ read-only calls do not change later transforms
        if set(props) & {"C04", "C07", "C16"} and kept:
            obj.summary()
            if getattr(ctx, "concrete", False):
                obj.to_json()
            if is_carver:
                obj.history()
            again = list(obj.transform(X)["f"])
            ctx.require(col_equal(again, col), "C07.state-mutated-by-readonly-call", f"{cls}: transform returns {again!r} after summary()/history()/to_json(), {col!r} before")
        # ------------------------------------------------------------------ C07: coherence of fit_transform / repeated / subset transforms
        if "C07" in props:
            obj2 = build(cls, params, companions)
            out2 = obj2.fit_transform(X, y)
            ctx.require(("f" in obj2.features) == kept, "C07.fit-transform-differs", "fit_transform keeps/drops the feature differently from fit")
            ctx.require(col_equal(list(out2["f"]), col), "C07.fit-transform-differs", f"fit_transform(X,y)['f'] {list(out2['f'])!r} != fit(X,y).transform(X)['f'] {col!r}")
            if kept:
                vo_snap = json.dumps([[repr(k), [repr(v) for v in obj.values_orders["f"].content[k]]] for k in obj.values_orders["f"]])
                lp_snap = repr(obj.labels_per_values)
                # a solver-chosen permutation / subset / re-indexing of the rows
                # rows reversed, one solver-chosen row dropped, index relabelled (the exhaustive row-purity
                # argument over symbolic rows is the kernel obligation O7.2)
                drop = ctx.choose("drop_row", N)
                keep = [r for r in reversed(range(N)) if r != drop]
                Xs = X.iloc[keep].copy()
                Xs.index = [int(i) * 2 + 7 for i in Xs.index]
                outs = obj.transform(Xs)
                ctx.require(col_equal(list(outs["f"]), [col[r] for r in keep]), "C07.row-purity", f"transform of rows {keep} != corresponding rows of the full result")
                ctx.require(list(outs.index) == list(Xs.index), "C07.index-columns", "index not kept on the re-indexed subset")
                out3 = obj.transform(X)
                ctx.require(col_equal(list(out3["f"]), col), "C07.repeat-transform", "second transform of the same frame differs")
                vo_snap2 = json.dumps([[repr(k), [repr(v) for v in obj.values_orders["f"].content[k]]] for k in obj.values_orders["f"]])
                ctx.require(vo_snap2 == vo_snap and repr(obj.labels_per_values) == lp_snap, "C07.state-mutated-by-transform", "transform altered the fitted state")
        # ------------------------------------------------------------------ C05: empty and single-row frames
        if "C05" in props:
            for sub, what in ((X.iloc[:0], "empty"), (X.iloc[:1], "single-row")):
                try:
                    o_ = obj.transform(sub)
                except Violation:
                    raise
                except Exception as e:
                    ctx.require(False, "C05.internal-error", f"{cls}.transform of an {what} frame raised {type(e).__name__}: {str(e)[:120]}")
                ctx.require(list(o_.index) == list(sub.index) and list(o_.columns) == list(sub.columns), "C07.index-columns", f"{what} frame: index/columns changed")
                if what == "single-row" and kept and col is not None:
                    ctx.require(col_equal(list(o_["f"]), col[:1]), "C07.row-purity", f"single-row frame labelled {list(o_['f'])}, the same row in the full frame {col[:1]}")
        # ------------------------------------------------------------------ C05: fresh unseen rows
        if "C05" in props and kept:
            z1 = ctx.real("z1", feature_value=True)
            Z = pd.DataFrame({c: X[c].iloc[:1].tolist() for c in X.columns})
            Z["f"] = feature_column(ctx, [z1])
            try:
                oz = list(obj.transform(Z)["f"])
            except AssertionError as e:
                ctx.require(False, "C05.valid-frame-rejected", f"finite unseen value rejected: {str(e)[:100]}")
            except Violation:
                raise
            except Exception as e:
                ctx.require(False, "C05.internal-error", f"transform(unseen) raised {type(e).__name__}: {str(e)[:100]}")
            ctx.require(contains(fitted_labels, oz[0]), "C05.raw-value-leak", f"unseen value got {oz[0]!r}, not a fitted label")
            if not n_nan:
                Zn = Z.copy()
                Zn["f"] = feature_column(ctx, [float("nan")])
                try:
                    obj.transform(Zn)
                    ctx.require(False, "C05.unexpected-nan-accepted", "NaN accepted at transform although none was seen at fit")
                except AssertionError as e:
                    ctx.require("'f'" in str(e), "C05.error-does-not-name-feature", str(e)[:120])
                except Violation:
                    raise
                except Exception as e:
                    ctx.require(False, "C05.internal-error", f"transform(NaN) raised {type(e).__name__}: {str(e)[:100]}")
        # ------------------------------------------------------------------ C01: end-to-end optimality against a brute-force oracle
        if "C01" in props and is_carver and cls != "MulticlassCarver":
            check_c01(ctx, cls, obj, X, y, xs, n, n_nan, params, kept, col, dev=dev)
        # ------------------------------------------------------------------ C06: JSON round trip on this path's fitted object
        if "C06" in props:
            check_c06(ctx, cls, obj, X, col, kept, is_carver)
        if "C16" in props:
            check_c16(ctx, cls, obj, X, col, kept, is_carver, companions)
    return dict(counters={"fitted": 1, "kept": int(kept)}, sample=dict(cls=cls, ypat=ypat, x=xs, kept=kept, out=[("nan" if isinstance(c, float) and c != c else ("label" if isinstance(c, str) else c)) for c in (col or [])] if kept else None),
                result=res)


# ----------------------------------------------------------------------------- property-specific oracles
def check_c02(ctx, obj, col, n, n_nan, y, params):
    """C02 stated literally on the transformed training frame."""
    max_n_mod = params.get("max_n_mod", 5)
    mfm = obj.min_freq_mod
    dropna = params.get("dropna", True)
    nn = [(c, yy) for c, yy in zip(col, y) if not (isinstance(c, float) and c != c)]
    labels = []
    for c, _ in nn:
        if not contains(labels, c):
            labels.append(c)
    ctx.require(len(labels) <= max_n_mod, "C02.too-many-groups", f"{len(labels)} distinct labels > max_n_mod={max_n_mod}")
    base = len(nn)
    for l in labels:
        cnt = sum(1 for c, _ in nn if bool(eqv(c, l)))
        ctx.require(cnt / base >= mfm, "C02.constraint-violated", f"label {l!r} carried by {cnt}/{base} rows < min_freq_mod={mfm!r}")
    n_missing_out = sum(1 for c in col if isinstance(c, float) and c != c)
    if dropna:
        ctx.require(n_missing_out == 0, "C02.nan-left", "dropna=True but the output has missing values")
    else:
        ctx.require(n_missing_out == n_nan and all(isinstance(c, float) and c != c for c in col[n:]), "C02.nan-not-preserved", "dropna=False: missing values not preserved in place")


def check_c02_dev(ctx, obj, col, y, dev, params):
    """C02 on X_dev: same label set, each label >= min_freq_mod frequent, same ranking by target rate."""
    Xd, yd = dev
    outd = list(obj.transform(Xd)["f"])
    ydl = list(yd)
    mfm = obj.min_freq_mod

    def table(labels_col, ys):
        t = {}
        for l, v in zip(labels_col, ys):
            if isinstance(l, float) and l != l:
                continue
            key = next((k for k in t if bool(eqv(k, l))), None)
            if key is None:
                key = l
                t[key] = []
            t[key].append(v)
        return t

    tt, td = table(col, y), table(outd, ydl)
    ctx.require(len(tt) == len(td) and all(any(bool(eqv(k, k2)) for k2 in td) for k in tt), "C02.dev-label-set", f"labels on X_dev {list(td)} differ from the labels on X {list(tt)}")
    nd = sum(len(v) for v in td.values())
    for k, v in td.items():
        ctx.require(len(v) / nd >= mfm, "C02.constraint-violated", f"label {k!r} carried by {len(v)}/{nd} rows of X_dev < min_freq_mod={mfm!r}")
    keys = list(tt)
    for i in range(len(keys)):
        for j in range(i + 1, len(keys)):
            a, b = keys[i], keys[j]
            kb_a = next(k2 for k2 in td if bool(eqv(k2, a)))
            kb_b = next(k2 for k2 in td if bool(eqv(k2, b)))
            ra, rb = sum(tt[a]) / len(tt[a]), sum(tt[b]) / len(tt[b])
            da, db = sum(td[kb_a]) / len(td[kb_a]), sum(td[kb_b]) / len(td[kb_b])
            inverted = (ra < rb and not np.isclose(ra, rb) and da > db and not np.isclose(da, db)) or (ra > rb and not np.isclose(ra, rb) and da < db and not np.isclose(da, db))
            ctx.require(not inverted, "C02.dev-rank-inversion", f"labels {a!r},{b!r}: target rates {ra:.3f},{rb:.3f} on X but {da:.3f},{db:.3f} on X_dev")


def check_c09(ctx, cls, obj, col, n, n_nan, params):
    """every bucket of a quantitative feature holds >= min_freq/2 of the rows unless one remains"""
    mf = params["min_freq"]
    N = n + n_nan
    nn = [c for c in col[:n]]
    labels = []
    for c in nn:
        if not contains(labels, c):
            labels.append(c)
    if cls in ("QuantitativeDiscretizer", "Discretizer") and "f" in getattr(obj, "values_orders", {}):
        # a fitted bucket that no training row falls in is a bucket holding 0 rows
        fitted = [v for v in list(obj.values_orders["f"]) if not (isinstance(v, str) and v == NAN)]
        ctx.require(len(fitted) <= max(len(labels), 1), "C09.quantitative-bucket-below-half-min-freq",
                    f"{len(fitted)} fitted buckets {fitted!r} but only {len(labels)} of them hold training rows: an empty bucket holds 0/{N} rows < min_freq/2 = {mf / 2}")
    if cls in ("QuantitativeDiscretizer", "Discretizer") and len(labels) > 1:
        for l in labels:
            cnt = sum(1 for c in nn if bool(eqv(c, l)))
            ctx.require(cnt / N >= mf / 2, "C09.quantitative-bucket-below-half-min-freq", f"bucket {l!r} holds {cnt}/{N} rows < min_freq/2 = {mf / 2} while {len(labels)} buckets remain")
    if n_nan:
        out_nan = col[n:]
        ctx.require(all(bool(eqv(o, out_nan[0])) for o in out_nan) and not contains(labels, out_nan[0]), "C09.nan-merged", "missing values must remain a separate modality after base discretization")


def _measure(cls, sort_by, groups_y):
    """Independent recomputation of the association measure for a grouping (lists of y per group)."""
    from scipy.stats import chi2_contingency, kruskal

    if cls == "ContinuousCarver":
        try:
            return float(kruskal(*[list(g) for g in groups_y])[0])
        except ValueError:
            return float("nan")
    tab = [[sum(1 for v in g if v == 0), sum(1 for v in g if v == 1)] for g in groups_y]
    if any(sum(r) == 0 for r in tab) or sum(r[0] for r in tab) == 0 or sum(r[1] for r in tab) == 0:
        chi2 = 0.0
    else:
        chi2 = chi2_contingency(np.array(tab))[0]
    n_obs = sum(sum(r) for r in tab)
    v = math.sqrt(chi2 / n_obs)
    if sort_by == "tschuprowt":
        return v / math.sqrt(math.sqrt(len(tab) - 1))
    return v


def _rate(g):
    return sum(g) / len(g)


def _viab(gy, total, mfm, gy_dev=None, total_dev=None, nan_alone_last=False):
    """(strict, weak) viability of a grouping per the property text.  The two readings differ where the
    statement is silent: adjacency of a NaN-only last group, and how target-rate ties of different groups
    are ranked between train and dev."""
    def side(groups, tot):
        if any(len(g) == 0 for g in groups):
            return False, False
        if any(len(g) / tot < mfm for g in groups):
            return False, False
        rates = [_rate(g) for g in groups]
        strict = weak = True
        for i, (a, b) in enumerate(zip(rates, rates[1:])):
            if np.isclose(a, b):
                strict = False
                if not (nan_alone_last and i == len(rates) - 2):
                    weak = False
        return strict, weak

    s, w = side(gy, total)
    if gy_dev is not None:
        sd, wd = side(gy_dev, total_dev)
        s, w = s and sd, w and wd
        if w:
            rt, rd = [_rate(g) for g in gy], [_rate(g) for g in gy_dev]
            n = len(rt)
            for i in range(n):
                for j in range(i + 1, n):
                    lt_t, gt_t = rt[i] < rt[j] and not np.isclose(rt[i], rt[j]), rt[i] > rt[j] and not np.isclose(rt[i], rt[j])
                    lt_d, gt_d = rd[i] < rd[j] and not np.isclose(rd[i], rd[j]), rd[i] > rd[j] and not np.isclose(rd[i], rd[j])
                    if (lt_t and gt_d) or (gt_t and lt_d):
                        s = w = False  # strict inversion
                    elif (lt_t, gt_t) != (lt_d, gt_d):
                        s = False  # a tie on one sample only: ranking ambiguous
    return s, w


def _viable(groups_y, total, mfm):
    return _viab(groups_y, total, mfm)[0]


def _contig(k, lo, hi):
    out = []
    for g in range(lo, hi + 1):
        for cuts in itertools.combinations(range(1, k), g - 1):
            b = [0] + list(cuts) + [k]
            out.append([list(range(b[i], b[i + 1])) for i in range(len(b) - 1)])
    return out


def check_c01(ctx, cls, obj, X, y, xs, n, n_nan, params, kept, col, base=None, dev=None):
    """Brute force over the base buckets of an independently fitted Discretizer (same parameters).
    base: callable returning that fitted Discretizer (default: quantitative feature f);
    dev: optional (X_dev, y_dev)."""
    from AutoCarver.discretizers import Discretizer

    sort_by = params.get("sort_by", "kruskal")
    max_n_mod = params.get("max_n_mod", 5)
    dropna = params.get("dropna", True)
    mfm = obj.min_freq_mod
    if base is None:
        d = Discretizer(quantitative_features=["f"], qualitative_features=[], min_freq=params["min_freq"], copy=True)
        d.fit(X, y)
    else:
        d = base()
    if "f" not in d.features:
        ctx.require(not kept, "C01.kept-without-base", "carver kept a feature the base Discretizer dropped")
        return
    base_col = list(d.transform(X)["f"])
    order = []
    for l in d.labels_per_values["f"].values():
        if l not in order:
            order.append(l)
    nn_order = [l for l in order if l != NAN]
    yl = list(y)
    buckets = [[yl[i] for i in range(len(base_col)) if base_col[i] == l] for l in nn_order]
    rows_of = [[i for i in range(len(base_col)) if base_col[i] == l] for l in nn_order]
    nan_y = [yl[i] for i in range(len(base_col)) if base_col[i] == NAN]
    nan_rows = [i for i in range(len(base_col)) if base_col[i] == NAN]
    k = len(nn_order)
    nn_total = sum(len(b) for b in buckets)
    dbuckets = dnan = None
    if dev is not None:
        Xd, yd = dev
        dcol = list(d.transform(Xd)["f"])
        ydl = list(yd)
        dbuckets = [[ydl[i] for i in range(len(dcol)) if dcol[i] == l] for l in nn_order]
        dnan = [ydl[i] for i in range(len(dcol)) if dcol[i] == NAN]
    dn_total = sum(len(b) for b in dbuckets) if dbuckets is not None else None

    def evaluate(cands):
        """cands: list of (payload, gy, gy_dev, total, total_dev, nan_alone_last) -> acceptable payloads (+None)"""
        scored = []
        for payload, gy, gyd, tot, totd, nal in cands:
            s_, w_ = _viab(gy, tot, mfm, gyd, totd, nal)
            if w_:
                m = _measure(cls, sort_by, gy)
                if m == m:
                    scored.append((m, payload, s_))
        strict = [m for m, _, s_ in scored if s_]
        top = max(strict) if strict else None
        acc = [pl for m, pl, s_ in scored if top is None or m >= top - 1e-9]
        return acc, (top is None)

    c1 = []
    if k >= 2:
        for p in _contig(k, 2, max_n_mod):
            gy = [[v for i in g for v in buckets[i]] for g in p]
            gyd = [[v for i in g for v in dbuckets[i]] for g in p] if dbuckets is not None else None
            c1.append((p, gy, gyd, nn_total, dn_total, False))
    acc1, none_ok1 = evaluate(c1)
    expected_parts = []
    if none_ok1:
        expected_parts.append(None)
    for p in acc1:
        if dropna and nan_rows:
            g1 = p
            c2 = []
            for q in _contig(len(g1), 2, max_n_mod):
                merged = [[i for gi in grp for i in g1[gi]] for grp in q]
                for pos in range(len(merged) + 1):
                    if pos == len(merged) and len(merged) >= max_n_mod:
                        continue
                    gy = [[v for i in g for v in buckets[i]] for g in merged]
                    gyd = [[v for i in g for v in dbuckets[i]] for g in merged] if dbuckets is not None else None
                    rows = [[r for i in g for r in rows_of[i]] for g in merged]
                    if pos == len(merged):
                        gy, rows = gy + [list(nan_y)], rows + [list(nan_rows)]
                        gyd = gyd + [list(dnan)] if gyd is not None else None
                    else:
                        gy = [g + (list(nan_y) if i == pos else []) for i, g in enumerate(gy)]
                        rows = [g + (list(nan_rows) if i == pos else []) for i, g in enumerate(rows)]
                        gyd = [g + (list(dnan) if i == pos else []) for i, g in enumerate(gyd)] if gyd is not None else None
                    c2.append((sorted(sorted(r) for r in rows), gy, gyd, nn_total + len(nan_y), (dn_total + len(dnan)) if gyd is not None else None, pos == len(merged)))
            acc2, none_ok2 = evaluate(c2)
            expected_parts += acc2
            if none_ok2:
                expected_parts.append(None)
        else:
            part = [[r for i in g for r in rows_of[i]] for g in p]
            if nan_rows:
                part = part + [list(nan_rows)]
            expected_parts.append(sorted(sorted(r) for r in part))
    got = row_partition(col) if kept else None
    ok = any((e is None and got is None) or (e is not None and got is not None and e == got) for e in expected_parts)
    ctx.require(ok, "C01.api-not-optimal" if got is not None else "C01.api-dropped-although-viable",
                f"{cls}: fitted row partition {got} is not among the optimal viable groupings {expected_parts[:6]} of the base buckets {rows_of} (+NaN rows {nan_rows}); y={yl}, "
                f"dev={'yes' if dev is not None else 'no'}, min_freq_mod={mfm}, max_n_mod={max_n_mod}, sort_by={sort_by}")


def check_c06(ctx, cls, obj, X, col, kept, is_carver):
    """JSON round trip of the model-concretised fitted object (concrete witnesses of every path)."""
    if not getattr(ctx, "concrete", False):
        return  # executed in the concrete twin of each sampled path (real json on real floats)
    from AutoCarver import load_carver
    from AutoCarver.discretizers.utils.base_discretizers import load_discretizer

    js = json.dumps(obj.to_json())
    loaded = (load_carver if is_carver else load_discretizer)(json.loads(js))
    out1 = obj.transform(X)
    out2 = loaded.transform(X)
    for c in out1.columns:
        ctx.require(col_equal(list(out1[c]), list(out2[c])), "C06.transform-differs-after-reload", f"column {c}: {list(out1[c])} vs {list(out2[c])}", dict(concrete_only=True))
    if obj.features:
        s1, s2 = obj.summary().reset_index().to_dict("records"), loaded.summary().reset_index().to_dict("records")
        ctx.require(json.dumps(s1, default=str) == json.dumps(s2, default=str), "C06.summary-differs-after-reload", f"{s1} vs {s2}", dict(concrete_only=True))
    js2 = json.dumps(loaded.to_json())
    a, b = json.loads(js), json.loads(js2)
    a.pop("_history", None), b.pop("_history", None)
    for k_ in ("values_orders",):
        a[k_], b[k_] = json.loads(a[k_]), json.loads(b[k_])
    ctx.require(a == b, "C06.reserialisation-differs", f"{a} vs {b}", dict(concrete_only=True))


def check_c16(ctx, cls, obj, X, col, kept, is_carver, companions):
    feats = sorted(obj.features)
    if feats:
        s = obj.summary()
        listed = sorted(set(s.index.get_level_values(0)))
        ctx.require(listed == feats, "C16.summary-features", f"summary lists {listed}, kept features are {feats}")
        if kept:
            sf = obj.summary("f")
            ctx.require(set(sf.index.get_level_values(0)) == {"f"}, "C16.summary-other-feature", "summary('f') has rows of another feature")
            nlab = len(row_partition([c for c in col if not (isinstance(c, float) and c != c)]))
            groups = [l for l in obj.values_orders["f"]]
            ctx.require(len(sf) in (len(groups), len(groups) - (1 if obj.values_orders["f"].contains(NAN) and NAN in groups and not obj.dropna else 0)),
                        "C16.summary-rows", f"summary('f') has {len(sf)} rows for {len(groups)} fitted groups")
    if is_carver and cls != "MulticlassCarver":
        h = obj._history.get("f", [])
        if kept:
            viable = [e for e in h if e.get("viability") is True]
            ctx.require(len(viable) >= 1, "C16.history-viable-count", "kept feature without a viable combination in its history")
            last = viable[-1]["combination"]
            # the last viable combination (groups of base-bucket labels) induces the fitted row partition
            from AutoCarver.discretizers import Discretizer

            d = Discretizer(quantitative_features=["f"], qualitative_features=[], min_freq=obj.min_freq, copy=True)
            d.fit(X[["f"]], pd.Series([0, 1] * len(X), index=None).iloc[: len(X)].set_axis(X.index))
            base_col = list(d.transform(X[["f"]])["f"])
            blocks = []
            for grp in last:
                rows = sorted(i for i, l in enumerate(base_col) if l in grp)
                if rows:
                    blocks.append(rows)
            nan_rows = [i for i, l in enumerate(base_col) if l == NAN]
            covered = sorted(i for b_ in blocks for i in b_)
            if nan_rows and not any(set(nan_rows) <= set(b_) for b_ in blocks):
                blocks.append(nan_rows)
            ctx.require(sorted(blocks) == row_partition(col), "C16.history-viable-is-not-fitted",
                        f"last viable combination {last} induces row blocks {sorted(blocks)}, the fitted transform gives {row_partition(col)}")
            raw = [e for e in h if e.get("viability") is None and e.get("viability_message") == ["Raw X distribution"]]
            ctx.require(len(raw) == 1, "C16.history-raw-distribution", f"{len(raw)} raw-distribution entries in the history")


# ----------------------------------------------------------------------------- jobs
def jobs(tier, props, classes, *, companions=False, ns=None, param_grid=None, nan_opts=(0, 1), max_pats=None, dev=False):
    quick = tier == "quick"
    out = []
    for cls in classes:
        kind = "continuous" if cls == "ContinuousCarver" else ("multiclass" if cls == "MulticlassCarver" else "binary")
        for n in (ns or ([4] if quick else [4, 5])):
            for n_nan in nan_opts:
                pats = ypatterns(kind, n + n_nan)
                cap = max_pats or (14 if quick else 30)
                if len(pats) > cap:
                    step = len(pats) / cap
                    pats = [pats[int(i * step)] for i in range(cap)]
                for params in (param_grid or default_params(cls, quick)):
                    if n_nan == 0 and params.get("dropna") is False:
                        continue
                    for pi, ypat in enumerate(pats):
                        out.append(dict(cls=cls, n=n, n_nan=n_nan, ypat=ypat, params=params, companions=companions, props=sorted(props)))
                        if dev and "Carver" in cls and cls != "MulticlassCarver":
                            # dev sample = the same rows reversed with another target pattern
                            dpat = pats[(pi * 3 + 1) % len(pats)]
                            out.append(dict(cls=cls, n=n, n_nan=n_nan, ypat=ypat, params=params, companions=companions, props=sorted(props), dev_ypat=tuple(dpat)))
    return out


def default_params(cls, quick):
    if "Carver" in cls:
        g = [dict(min_freq=0.5, sort_by="cramerv", max_n_mod=2, output_dtype="float", dropna=True),
             dict(min_freq=0.25, sort_by="tschuprowt", max_n_mod=3, output_dtype="str", dropna=True),
             dict(min_freq=0.25, sort_by="cramerv", max_n_mod=3, output_dtype="float", dropna=False)]
        if not quick:
            g += [dict(min_freq=0.34, sort_by="cramerv", max_n_mod=3, output_dtype="float", dropna=True, min_freq_mod=0.25),
                  dict(min_freq=0.15, sort_by="tschuprowt", max_n_mod=4, output_dtype="float", dropna=True)]
        return g
    return [dict(min_freq=0.5), dict(min_freq=0.25)] + ([] if quick else [dict(min_freq=0.34), dict(min_freq=0.15)])


def obligation(tier, props, name, classes, **kw):
    quick = tier == "quick"
    js = jobs(tier, props, classes, **kw)
    return Obligation(
        name=name, harness=h_fit, jobs=js, encodes=ENC_COMMON + (ENC_CARVER if any("Carver" in c for c in classes) else []), rebindings=RB,
        bounds=f"classes {classes}; quantitative column of n={kw.get('ns') or ([4] if quick else [4, 5])} symbolic reals (all weak orderings incl. ties) + 0/1 NaN row; "
               f"every binary target pattern (sampled beyond 14) / 4 continuous rank patterns; parameter grid {kw.get('param_grid') or 'default (min_freq .5/.25[/.34/.15], max_n_mod 2-4, both sort_by, both output dtypes, dropna T/F)'}",
        outside="more than 5-6 rows; verbose printing; n_jobs>1 (C10)",
        twin_every=11, budget_s=6.0,
    )


# ============================================================================= qualitative / ordinal features end to end
QCATS = ["m", "c", "x", "a", "k"]


def h_fit_qual(ctx, cls, kind, sizes, n_nan, params, props):
    try:
        return _h_fit_qual(ctx, cls, kind, sizes, n_nan, params, props)
    except Violation as v:
        v.extra = dict(v.extra or {}, cls=cls, feature_kind=kind)
        raise


def _h_fit_qual(ctx, cls, kind, sizes, n_nan, params, props):
    """Complete carver fit on a qualitative (categorical) or ordinal feature: category sizes concrete,
    positives per category solver-chosen (target-rate ties reachable)."""
    from AutoCarver import BinaryCarver, ContinuousCarver
    from AutoCarver.discretizers import Discretizer

    k = len(sizes)
    cats = QCATS[:k]
    col, ycol = [], []
    for c, sz in zip(cats, sizes):
        pos = ctx.choose(f"pos_{c}", sz + 1)
        col += [c] * sz
        ycol += [1] * pos + [0] * (sz - pos)
    col += [np.nan] * n_nan
    nanpos = ctx.choose("pos_nan", n_nan + 1) if n_nan else 0
    ycol += [1] * nanpos + [0] * (n_nan - nanpos)
    if not (0 < sum(ycol) < len(ycol)):
        from symx import Infeasible
        raise Infeasible()
    X = pd.DataFrame({"f": pd.Series(col, dtype=object)})
    X.index = [10 + 2 * i for i in range(len(col))]
    if cls == "ContinuousCarver":
        y = pd.Series([v + 0.001 * (i % 3) for i, v in enumerate(ycol)], index=X.index)
    else:
        y = pd.Series(ycol, index=X.index)
    from harness.common import ranking_container
    # the container the user's ranking comes in rotates with the job (list, numpy array, GroupedList, dict form)
    rk = lambda: ranking_container(ctx, cats, which=("list", "array", "grouped", "dict")[(sum(sizes) + n_nan + int(params.get("max_n_mod", 0))) % 4])
    fkw = dict(ordinal_features=["f"], values_orders={"f": rk()}) if kind == "ord" else dict(qualitative_features=["f"])
    p = dict(params)
    if cls == "ContinuousCarver":
        p.pop("sort_by", None)
        obj = ContinuousCarver(copy=True, **fkw, **p)
    else:
        obj = BinaryCarver(copy=True, **fkw, **p)
    snapX = snapshot_frame(X)
    try:
        obj.fit(X, y)
    except Violation:
        raise
    except AssertionError as e:
        return dict(counters={"assertion": 1}, sample=dict(cls=cls, kind=kind, sizes=sizes, outcome="AssertionError", msg=str(e)[:80]), result=dict(outcome="AssertionError"))
    except Exception as e:
        import traceback
        ctx.require(False, "C08.internal-error", f"{cls}.fit on a {kind} feature raised {type(e).__name__}: {str(e)[:160]} | {traceback.format_exc(limit=-2)[-300:]} (sizes {sizes}, y={ycol})")
    kept = "f" in obj.features
    feats = set(obj.features)
    for attr in ("values_orders", "input_dtypes", "labels_per_values", "features_dropna"):
        ctx.require(set(getattr(obj, attr).keys()) == feats, "C08.attributes-incoherent", f"{cls}.{attr} keys {sorted(getattr(obj, attr).keys())} != features {sorted(feats)}")
    try:
        out = obj.transform(X)
    except Exception as e:
        ctx.require(False, "C08.transform-after-fit", f"{cls}.transform(X_train) raised {type(e).__name__}: {str(e)[:160]}")
    ctx.require(frame_unchanged(X, snapX), "C07.input-mutated", f"{cls}: fit/transform modified the caller's X")
    colo = list(out["f"])
    if not kept:
        ctx.require(col_equal(colo, list(X["f"])), "C08.dropped-feature-touched", "a dropped feature's column was modified by transform")
    else:
        vo = obj.values_orders["f"]
        well_formed_partition(ctx, vo, "C08.partition", f"{cls}.values_orders['f']")
        known = [v for l in vo for v in vo.content[l]]
        for c in cats:
            ctx.require(c in known, "C08.coverage", f"training value {c!r} not covered by values_orders {dict(vo.content)}")
        if kind == "ord":
            # ordinal groups are contiguous runs of the ranking, in ranking order (C03)
            pos = {c: i for i, c in enumerate(cats)}
            firsts = []
            for l in vo:
                idx = sorted(pos[v] for v in vo.content[l] if v in pos)
                if idx:
                    ctx.require(idx == list(range(idx[0], idx[0] + len(idx))), "C03.ordinal-not-contiguous", f"group {vo.content[l]} is not a contiguous run of the ranking {cats}")
                    firsts.append(idx[0])
            ctx.require(firsts == sorted(firsts), "C03.ordinal-order", f"groups out of ranking order: {dict(vo.content)}")
        if "C02" in props:
            check_c02(ctx, obj, colo, len(col) - n_nan, n_nan, list(y if cls != "ContinuousCarver" else y), params)
        if "C16" in props:
            s = obj.summary()
            listed = [v for r in s.reset_index().to_dict("records") for v in r["content"]]
            exp_known = [v for v in known if isinstance(v, str) and v != "__OTHER__" and not (v == NAN and not obj.dropna)]
            ctx.require(sorted(listed) == sorted(exp_known), "C16.summary-partition", f"summary lists {sorted(listed)}, known values {sorted(exp_known)}")
            for r in s.reset_index().to_dict("records"):
                for v in r["content"]:
                    ctx.require(r["label"] == obj.labels_per_values["f"][v], "C16.summary-label", f"summary says {v!r} -> {r['label']!r}, transform uses {obj.labels_per_values['f'][v]!r}")
            # history: the last combination flagged viable is exactly the fitted grouping (in raw values)
            h = obj._history.get("f", [])
            viable = [e for e in h if e.get("viability") is True]
            ctx.require(len(viable) >= 1, "C16.history-viable-count", "kept feature without a viable combination in its history")
            last = viable[-1]["combination"]
            fitted = sorted(sorted(map(repr, vo.content[l])) for l in vo)
            hist = sorted(sorted(map(repr, grp)) for grp in last if len(grp) > 0)
            if not obj.dropna and vo.contains(NAN):
                fitted = [g for g in fitted if g != [repr(NAN)]]
                hist = [g for g in hist if g != [repr(NAN)]]
            ctx.require(hist == fitted, "C16.history-viable-is-not-fitted", f"last combination flagged viable {last} differs from the fitted grouping {[list(vo.content[l]) for l in vo]}")
            raw = [e for e in h if e.get("viability") is None and e.get("viability_message") == ["Raw X distribution"]]
            ctx.require(len(raw) == 1, "C16.history-raw-distribution", f"{len(raw)} raw-distribution entries in the history")
    if "C08" in props:
        # a fit refused because of the dev sample, then the same object fitted on well-formed input: same result as a fresh object
        def mk():
            return ContinuousCarver(copy=True, **(dict(ordinal_features=["f"], values_orders={"f": rk()}) if kind == "ord" else dict(qualitative_features=["f"])), **p) \
                if cls == "ContinuousCarver" else BinaryCarver(copy=True, **(dict(ordinal_features=["f"], values_orders={"f": rk()}) if kind == "ord" else dict(qualitative_features=["f"])), **p)

        good_dev = X.iloc[::-1].copy()
        good_dev.index = [700 + i for i in range(len(good_dev))]
        y_good = pd.Series(list(y)[::-1], index=good_dev.index)
        bad_dev = good_dev.copy()
        bad_dev.iloc[0, 0] = np.nan if n_nan == 0 else "never_seen"
        retry = mk()
        refused = False
        try:
            retry.fit(X, y, X_dev=bad_dev, y_dev=y_good)
        except AssertionError:
            refused = True
        except Violation:
            raise
        except Exception as e:
            ctx.require(False, "C08.internal-error", f"{cls}.fit with an unexpected value in X_dev raised {type(e).__name__}: {str(e)[:160]} (sizes {sizes}, y={ycol})")
        if refused:
            def run(o):
                try:
                    o.fit(X, y, X_dev=good_dev, y_dev=y_good)
                    return "fitted"
                except AssertionError:
                    return "AssertionError"
                except Violation:
                    raise
                except Exception as e:
                    import traceback
                    ctx.require(False, "C08.internal-error", f"{cls}.fit on well-formed input after a refused fit of the same object raised {type(e).__name__}: {str(e)[:160]} | {traceback.format_exc(limit=-2)[-300:]} (sizes {sizes}, y={ycol})",
                                dict(after_refused_fit=True))
            fresh = mk()
            st_r, st_f = run(retry), run(fresh)
            ctx.require(st_r == st_f, "C08.refused-fit-left-state", f"fit after a refused fit: {st_r}; fresh object: {st_f}")
            if st_f == "fitted":
                ctx.require(sorted(retry.features) == sorted(fresh.features), "C08.refused-fit-left-state", f"features after a refused fit {sorted(retry.features)} != fresh object {sorted(fresh.features)}")
                if "f" in fresh.features:
                    a, b = retry.values_orders["f"], fresh.values_orders["f"]
                    ctx.require(list(a) == list(b) and all(list(a.content[k]) == list(b.content[k]) for k in a), "C08.refused-fit-left-state",
                                f"values_orders after a refused fit {dict(a.content)} != fresh object {dict(b.content)}")
    if "C01" in props:
        def base():
            d = Discretizer(quantitative_features=[], qualitative_features=[] if kind == "ord" else ["f"], min_freq=params["min_freq"], copy=True,
                            **(dict(ordinal_features=["f"], values_orders={"f": rk()}) if kind == "ord" else {}))
            d.fit(X, y)
            return d
        check_c01(ctx, cls, obj, X, y, None, len(col) - n_nan, n_nan, params, kept, colo, base=base)
    if "C06" in props:
        check_c06(ctx, cls, obj, X, colo, kept, True)
    return dict(counters={"fitted": 1, "kept": int(kept)}, sample=dict(cls=cls, kind=kind, sizes=sizes, y=ycol, kept=kept, groups=[list(obj.values_orders["f"].content[l]) for l in obj.values_orders["f"]] if kept else None),
                result=dict(kept=kept, partition=row_partition(colo) if kept else None))


def obligation_qual(tier, props, name, classes=("BinaryCarver", "ContinuousCarver")):
    quick = tier == "quick"
    jobs = []
    for cls in classes:
        for kind in ("qual", "ord"):
            for sizes in ([(3, 3, 2), (2, 2, 2, 2), (4, 3, 1, 1)] if quick else [(3, 3, 2), (2, 2, 2, 2), (4, 3, 1, 1), (4, 1, 3), (2, 3, 2, 3), (3, 1, 3, 1)]):  # incl. levels rarer than min_freq
                for n_nan in (0, 2):
                    for params in [dict(min_freq=0.2, sort_by="cramerv", max_n_mod=3, output_dtype="str", dropna=True)] + ([dict(min_freq=0.25, sort_by="tschuprowt", max_n_mod=2, output_dtype="float", dropna=False)] if (n_nan or not quick) else []):
                        if n_nan == 0 and params["dropna"] is False:
                            continue
                        jobs.append(dict(cls=cls, kind=kind, sizes=sizes, n_nan=n_nan, params=params, props=sorted(props)))
            if "C08" in props and kind == "qual":
                # a single rare level: the default group it forms is itself rarer than min_freq
                jobs.append(dict(cls=cls, kind=kind, sizes=(4, 4, 1), n_nan=0, params=dict(min_freq=0.2, sort_by="cramerv", max_n_mod=3, output_dtype="str", dropna=True), props=sorted(props)))
            if ("C16" in props or not quick) and kind == "qual":
                # two rare levels merged into the default group that joins a more frequent, lower-rate level
                jobs.append(dict(cls=cls, kind=kind, sizes=(3, 1, 1, 3, 3), n_nan=2, params=dict(min_freq=0.2, sort_by="cramerv", max_n_mod=2, output_dtype="str", dropna=True), props=sorted(props)))
    return Obligation(
        name=name, harness=h_fit_qual, jobs=jobs,
        encodes=ENC_CARVER + ["Discretizer.fit", "QualitativeDiscretizer._prepare_data/fit", "CategoricalDiscretizer.fit", "OrdinalDiscretizer.fit", "find_common_modalities", "BaseDiscretizer._transform_qualitative/_check_new_values"],
        bounds=f"categorical and ordinal (non-alphabetical ranking) features with 3-4 categories of concrete sizes, positives per category solver-chosen (ties reachable), 0/2 missing rows, {2 if quick else 4} size profiles",
        outside="more categories; symbolic category text", twin_every=5, budget_s=6.0,
    )
