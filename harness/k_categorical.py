"""Categorical kernel (C03 O3.4, C09 O9.4): the real CategoricalDiscretizer.fit (and the
QualitativeDiscretizer pipeline around it) on a concrete label column whose per-category sizes and
positives are solver-chosen, with a symbolic min_freq."""
from __future__ import annotations

import numpy as np
import pandas as pd

from symx import Obligation, Violation
from harness.common import ranking_container

NAN, OTHER = "__NAN__", "__OTHER__"
CATS = ["m", "c", "x", "a", "k"]


def h_categorical(ctx, k, N, n_nan, pipeline, props):
    from AutoCarver.discretizers import CategoricalDiscretizer, QualitativeDiscretizer

    cats = CATS[:k]
    sizes, left = [], N - k
    for i in range(k - 1):
        c = ctx.choose(f"c{i}", left + 1)
        sizes.append(c + 1)
        left -= c
    sizes.append(left + 1)
    col, ycol = [], []
    for cat, sz in zip(cats, sizes):
        pos = ctx.choose(f"p_{cat}", sz + 1)
        col += [cat] * sz
        ycol += [1] * pos + [0] * (sz - pos)
    col += [np.nan] * n_nan
    ycol += [i % 2 for i in range(n_nan)]
    total = len(col)
    mf = ctx.real("min_freq")
    ctx.assume(mf > 0)
    ctx.assume(mf <= 0.5)
    numeric = pipeline.endswith("_numeric") or pipeline.endswith("_bigfloat")
    if numeric:
        # ordinal feature whose values are numbers while the ranking is given as strings (StringDiscretizer path,
        # the only caller of GroupedList.update); '_bigfloat': float codes needing 7 significant digits
        num_of = {c: ((i + 1) if pipeline.endswith("_numeric") else float((3 * i + 1) * 1000000 + i)) for i, c in enumerate(cats)}
        col = [num_of[v] if isinstance(v, str) else v for v in col]
        cats = [str(int(num_of[c])) for c in cats]
    X = pd.DataFrame({"f": pd.Series(col, dtype=object)})
    y = pd.Series(ycol)
    ordinal = pipeline.endswith("_ordinal") or numeric
    if pipeline == "categorical":
        d = CategoricalDiscretizer(["f"], min_freq=mf, copy=True, verbose=False)
    elif pipeline == "qualitative":
        d = QualitativeDiscretizer(["f"], min_freq=mf, copy=True, verbose=False)
    elif pipeline in ("qualitative_ordinal", "qualitative_ordinal_numeric", "qualitative_ordinal_bigfloat"):
        d = QualitativeDiscretizer([], min_freq=mf, ordinal_features=["f"], values_orders={"f": ranking_container(ctx, cats, which=("list", "array", "grouped", "dict")[(len(col) + len(cats)) % 4])}, copy=True, verbose=False)
    elif pipeline == "discretizer_ordinal":
        from AutoCarver.discretizers import Discretizer
        d = Discretizer([], [], min_freq=mf, ordinal_features=["f"], values_orders={"f": ranking_container(ctx, cats, which=("list", "array", "grouped", "dict")[(len(col) + len(cats)) % 4])}, copy=True, verbose=False)
    elif pipeline == "discretizer":
        from AutoCarver.discretizers import Discretizer
        d = Discretizer([], ["f"], min_freq=mf, copy=True, verbose=False)
    elif pipeline == "qualitative_pregrouped":
        # the user supplies an already grouped order: the second category is a member of the first one's group
        from AutoCarver.discretizers import GroupedList
        pre = GroupedList({cats[0]: [cats[1], cats[0]], **{c: [c] for c in cats[2:]}})
        d = QualitativeDiscretizer(["f"], min_freq=mf, values_orders={"f": pre}, copy=True, verbose=False)
    x_before = X.copy()
    try:
        d.fit(X, y)
    except Violation:
        raise
    except AssertionError as e:
        ctx.require(False, "C08.clean-input-rejected", f"{pipeline} fit raised AssertionError on a well-formed sample: {str(e)[:150]} (sizes {sizes})")
    except Exception as e:
        ctx.require(False, "C08.internal-error", f"{pipeline} fit raised {type(e).__name__}: {str(e)[:150]} (sizes {sizes})")
    # ---- C08: per-feature attributes refer to exactly the kept features
    feats = set(d.features)
    for attr in ("values_orders", "input_dtypes", "labels_per_values", "features_dropna"):
        ctx.require(set(getattr(d, attr).keys()) == feats, "C08.attributes-incoherent", f"{pipeline}: {attr} keys {sorted(getattr(d, attr).keys())} != features {sorted(feats)} (sizes {sizes})")
    for attr in ("qualitative_features", "ordinal_features", "non_ordinal_features"):
        if hasattr(d, attr):
            ctx.require(set(getattr(d, attr)) <= feats, "C08.attributes-incoherent", f"{pipeline}: {attr} = {getattr(d, attr)} but features = {sorted(feats)}")
    if "f" not in d.features:
        ctx.require(max(sizes) / total < mf, "C09.feature-dropped", f"feature dropped although its largest modality holds {max(sizes)}/{total} >= min_freq")
        try:
            out = d.transform(X)
        except Exception as e:
            ctx.require(False, "C08.transform-after-fit", f"{pipeline}: transform after dropping the feature raised {type(e).__name__}: {str(e)[:120]}")
        ctx.require(out["f"].equals(x_before["f"]) or list(out["f"].astype(str)) == list(x_before["f"].astype(str)), "C08.dropped-feature-touched", "a dropped feature's column was modified by transform")
        return dict(counters={"dropped": 1}, sample=dict(sizes=sizes, outcome="dropped"), result=dict(outcome="dropped"))
    if pipeline == "qualitative_pregrouped":
        vo = d.values_orders["f"]
        allv = vo.values()
        ctx.require(sorted(v for v in allv if v not in (NAN, OTHER)) == sorted(cats) and len(allv) == len(set(allv)), "C08.partition", f"pre-grouped order: values_orders {dict(vo.content)} does not partition {cats}")
        ctx.require(vo.get_group(cats[0]) == vo.get_group(cats[1]), "C04.wrong-group", f"user-supplied grouping of {cats[1]!r} with {cats[0]!r} was lost: {dict(vo.content)}")
        out = list(d.transform(X)["f"])
        lab = {}
        for v, o in zip(col, out):
            if isinstance(v, str):
                ctx.require(lab.setdefault(vo.get_group(v), o) == o, "C04.wrong-group", f"rows of one group carry different labels: {list(zip(col, out))}")
                ctx.require(o == d.labels_per_values["f"][v], "C04.member-label", f"value {v!r} transformed to {o!r}, labels_per_values says {d.labels_per_values['f'][v]!r}")
        ctx.require(len(set(lab.values())) == len(lab), "C04.label-collision", f"two groups share a label: {lab}")
        return dict(counters={"ok": 1}, sample=dict(sizes=sizes, pipeline=pipeline, groups={k_: list(v) for k_, v in vo.content.items()}), result=dict(n=len(vo)))
    if ordinal:
        vo = d.values_orders["f"]
        allv = vo.values()
        for c in cats:
            ctx.require(c in allv, "C08.coverage", f"{pipeline}: ranking value {c!r} missing from values_orders {dict(vo.content)}")
        # ordinal groups are contiguous runs of the supplied ranking, in ranking order (C03)
        posr = {c: i for i, c in enumerate(cats)}
        firsts = []
        for l in vo:
            idx = sorted(posr[v] for v in vo.content[l] if v in posr)
            if idx:
                ctx.require(idx == list(range(idx[0], idx[0] + len(idx))), "C03.ordinal-not-contiguous", f"{pipeline}: group {vo.content[l]} is not a contiguous run of the ranking {cats}")
                firsts.append(idx[0])
        ctx.require(firsts == sorted(firsts), "C03.ordinal-order", f"{pipeline}: groups out of ranking order: {dict(vo.content)}")
        extra_leaders = [l for l in vo if l != NAN and not any(v in posr for v in vo.content[l])]
        ctx.require(not extra_leaders, "C03.ordinal-order", f"{pipeline}: modalities outside the supplied ranking appeared: {extra_leaders} (ranking {cats}, values_orders {dict(vo.content)})")
        if numeric:
            out = d.transform(X)
            sform = lambda v_: str(int(v_)) if float(v_) == int(v_) else str(v_)
            for v, o in zip(col, list(out["f"])):
                if isinstance(v, float) and v != v:
                    continue
                ctx.require(v in allv and vo.get_group(v) == vo.get_group(sform(v)), "C04.string-form", f"{pipeline}: number {v!r} is not grouped with its string form: {dict(vo.content)}")
                ctx.require(o == d.labels_per_values["f"][sform(v)], "C04.string-form", f"{pipeline}: number {v!r} transformed to {o!r}, its string form's label is {d.labels_per_values['f'][sform(v)]!r}")
        return dict(counters={"ok": 1}, sample=dict(sizes=sizes, pipeline=pipeline), result=dict(n=len(vo)))
    vo = d.values_orders["f"]
    groups = {l: list(vo.content[l]) for l in vo}
    # ---- C09: a value is in the default group iff it is rarer than min_freq; NaN separate
    rare = [c for c, sz in zip(cats, sizes) if not bool(sz / total >= mf)]
    in_default = [v for v in groups.get(OTHER, []) if v != OTHER]
    ctx.require(sorted(in_default) == sorted(rare), "C09.default-group-membership", f"default group holds {sorted(in_default)}, values rarer than min_freq are {sorted(rare)} (sizes {dict(zip(cats, sizes))}, total {total})")
    for c in cats:
        if c not in rare:
            ctx.require(groups.get(c) == [c], "C09.frequent-value-grouped", f"value {c!r} is frequent enough but is not its own modality: {groups}")
    if n_nan:
        ctx.require(groups.get(NAN) == [NAN] and list(vo)[-1] == NAN, "C09.nan-merged", f"missing values must remain a separate (last) modality: {groups}")
    allv = [v for m in groups.values() for v in m]
    ctx.require(sorted(v for v in allv if v not in (NAN, OTHER)) == sorted(cats), "C08.partition", f"values_orders does not partition the categories: {groups}")
    # ---- C03: fitted order non-decreasing in training target rate
    rate = {}
    for lead, mem in groups.items():
        rows = [yy for v, yy in zip(col, ycol) if (v in mem) or (lead == NAN and isinstance(v, float))]
        if rows:
            rate[lead] = sum(rows) / len(rows)
    order = [l for l in vo if l != NAN and l in rate]
    for a, b in zip(order, order[1:]):
        ctx.require(rate[a] <= rate[b] + 1e-12, "C03.categorical-not-in-target-rate-order", f"fitted order {order} is not sorted by training target rate {rate}")
    return dict(counters={"ok": 1}, sample=dict(sizes=sizes, y_pos=[sum(1 for v, yy in zip(col, ycol) if v == c and yy) for c in cats], order=list(vo)), result=dict(groups={k_: sorted(v) for k_, v in groups.items()}, n=len(vo)))


def obligation(tier, props, name):
    quick = tier == "quick"
    jobs = []
    for k in ([2, 3] if quick else [2, 3, 4]):
        for N in ([k + 2, 6] if quick else [k + 2, 6, 8]):
            if N < k:
                continue
            for n_nan in (0, 2):
                for pipeline in ("categorical", "qualitative") + (("qualitative_ordinal", "discretizer_ordinal", "discretizer", "qualitative_ordinal_numeric", "qualitative_pregrouped") if "C08" in props else ()) + (("qualitative_ordinal", "qualitative_ordinal_numeric", "qualitative_ordinal_bigfloat") if "C03" in props else ()):
                    jobs.append(dict(k=k, N=N, n_nan=n_nan, pipeline=pipeline, props=sorted(props)))
    return Obligation(
        name=name, harness=h_categorical, jobs=jobs,
        encodes=["CategoricalDiscretizer._prepare_data/fit", "QualitativeDiscretizer._prepare_data/fit", "base_discretizers.value_counts/target_rate", "GroupedList.group_list/sort_by", "BaseDiscretizer._check_new_values"],
        bounds=f"k <= {3 if quick else 4} categories (non-alphabetical names), N <= {6 if quick else 8} rows with solver-chosen sizes (>= 1) and positives, 0/2 missing rows, min_freq any real in (0,0.5]",
        outside="more categories/rows; never-observed categories supplied through values_orders",
        twin_every=5, budget_s=5.0,
    )
