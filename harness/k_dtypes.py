"""Transform-time dtype grid (C04, C05, C06): a fitted quantitative feature receives new frames whose column uses
the various numeric pandas dtypes (float64, int64, object, nullable Int64/Float64/boolean) with or
without missing markers (NaN, None, pd.NA).  The picks are solver-chosen; data are concrete."""
from __future__ import annotations

import numpy as np
import pandas as pd

from symx import Obligation, Violation

NAN = "__NAN__"


def h_dtype(ctx, fitted_with_nan, via):
    from AutoCarver import BinaryCarver
    from AutoCarver.discretizers import Discretizer, GroupedList
    from AutoCarver.discretizers.utils.base_discretizers import BaseDiscretizer

    # the user's name for missing values: the default, or one longer than numpy's fixed-width rendering of a float (32 chars)
    nan_name = [NAN, "MISSING_VALUE_WITH_A_VERY_LONG_NAME_OVER_32_CHARS"][ctx.choose("str_nan", 2)]

    # ---- a fitted object: boundaries 2, 5, inf (+ NaN merged into the first group when fitted_with_nan)
    # magnitude "big": integer boundaries and values beyond 2**53, where float64 cannot tell neighbours apart
    big = bool(ctx.choose("magnitude", 2))
    OFF = 2**60 if big else 0
    if big and via != "base":
        from symx import Infeasible
        raise Infeasible()
    if via == "base":
        b1, b2 = (OFF + 2, OFF + 5) if big else (2.0, 5.0)
        content = {b1: [b1], b2: [b2], float("inf"): [float("inf")]}
        odt = "float"
        if fitted_with_nan:
            if ctx.choose("nan_alone", 2):
                # missing values as their own modality, labelled with the user's name for them
                content = {b1: [b1], b2: [b2], float("inf"): [float("inf")], nan_name: [nan_name]}
                odt = "str"
            else:
                content = {b1: [nan_name, b1], b2: [b2], float("inf"): [float("inf")]}
        obj = BaseDiscretizer(["f"], values_orders={"f": GroupedList(content)}, input_dtypes="float", output_dtype=odt, str_nan=nan_name, dropna=True, copy=True, verbose=False)
        obj.fit()
    else:
        base = [1, 2, 3, 4, 5, 6, 7, 8, 1, 2, 3, 4, 5, 6, 7, 8, 2, 5, 7, 3]
        col = pd.Series(base, dtype=float)
        if fitted_with_nan:
            col.iloc[[0, 9, 15]] = np.nan
        y = pd.Series([0, 0, 0, 1, 1, 1, 1, 1, 0, 0, 1, 0, 1, 1, 0, 1, 0, 1, 1, 0])
        obj = BinaryCarver(min_freq=0.2, sort_by="cramerv", quantitative_features=["f"], max_n_mod=3, copy=True, dropna=True, str_nan=nan_name, output_dtype=["float", "str"][ctx.choose("output_dtype", 2)])
        obj.fit(pd.DataFrame({"f": col}), y)
        if "f" not in obj.features:
            from symx import Infeasible
            raise Infeasible()
    fitted_labels = set(obj.labels_per_values["f"].values())
    # ---- the new frame
    dtypes = ["float64", "int64", "object", "Int64", "Float64", "float32", "uint64", "UInt64"]
    dt = dtypes[ctx.choose("dtype", len(dtypes))]
    vals = [OFF + v for v in (1, 4, 9, 2, 5, 3, 6)]
    if big and dt in ("float64", "Float64", "float32"):
        from symx import Infeasible
        raise Infeasible()
    missing = [None, "nan", "None", "NA"][ctx.choose("missing", 4)]
    pos = ctx.choose("pos", len(vals))
    if (dt in ("int64", "uint64") or big) and missing is not None:
        from symx import Infeasible
        raise Infeasible()
    data = list(vals)
    if missing is not None:
        data[pos] = {"nan": np.nan, "None": None, "NA": pd.NA}[missing]
    try:
        if dt == "object":
            s = pd.Series(data, dtype=object)
        elif dt in ("Int64", "Float64", "UInt64"):
            s = pd.Series([pd.NA if (v is None or v is pd.NA or (isinstance(v, float) and v != v)) else v for v in data], dtype=dt)
        else:
            s = pd.Series([np.nan if (v is None or v is pd.NA) else v for v in data], dtype=dt)
    except (TypeError, ValueError):
        from symx import Infeasible
        raise Infeasible()
    X = pd.DataFrame({"f": s})
    has_missing = bool(X["f"].isna().any())
    try:
        out = obj.transform(X)
        outcome = "ok"
    except AssertionError as e:
        outcome = "AssertionError"
        msg = str(e)
    except Violation:
        raise
    except Exception as e:
        ctx.require(False, "C05.internal-error", f"transform of a {dt} column ({'with ' + missing if missing else 'no missing'}; feature fitted {'with' if fitted_with_nan else 'without'} NaN) raised {type(e).__name__}: {str(e)[:120]}",
                    dict(dtype=dt, nullable=dt in ("Int64", "Float64", "UInt64")))
    if has_missing and not fitted_with_nan:
        ctx.require(outcome == "AssertionError", "C05.unexpected-nan-accepted", f"{dt} column with {missing}: missing value accepted although none was seen at fit", dict(dtype=dt))
        ctx.require("'f'" in msg, "C05.error-does-not-name-feature", msg[:120])
        return dict(counters={"rejected": 1}, sample=dict(dtype=dt, missing=missing, outcome=outcome), result=dict(outcome=outcome))
    ctx.require(outcome == "ok", "C05.valid-frame-rejected", f"{dt} column ({missing}) rejected: {msg[:100] if outcome != 'ok' else ''}", dict(dtype=dt))
    col_out = list(out["f"])
    for v, o in zip(data, col_out):
        ctx.require(o in fitted_labels, "C05.raw-value-leak", f"{dt} column: value {v!r} -> {o!r}, not a fitted label {sorted(fitted_labels)}", dict(dtype=dt))
    # C04: every row gets the label of the first fitted group whose upper bound is >= its value (exact comparison)
    leaders = [v for v in list(obj.values_orders["f"]) if not (isinstance(v, str) and v == nan_name)]
    for v, o in zip(data, col_out):
        if v is None or v is pd.NA or (isinstance(v, float) and v != v):
            continue
        lead = next(l for l in leaders if v <= l)
        want = obj.labels_per_values["f"][lead]
        ctx.require(o == want, "C04.wrong-group", f"{dt} column: value {v!r} labelled {o!r}, but the first group whose upper bound is >= the value is {lead!r} (label {want!r})", dict(dtype=dt, magnitude="big" if big else "small"))
    if big:
        return dict(counters={"ok": 1, "big": 1}, sample=dict(dtype=dt, magnitude="big", out=col_out), result=dict(out=col_out))
    # same labels as the float64 rendering of the same values
    Xf = pd.DataFrame({"f": pd.Series([np.nan if (v is None or v is pd.NA) else v for v in data], dtype="float64")})
    ref = list(obj.transform(Xf)["f"])
    ctx.require(col_out == ref, "C05.dtype-dependent-output", f"{dt} column labelled {col_out}, the same values as float64 {ref}", dict(dtype=dt))
    return dict(counters={"ok": 1}, sample=dict(dtype=dt, missing=missing, out=col_out), result=dict(out=col_out))


def obligation(tier, name):
    jobs = [dict(fitted_with_nan=w, via=v) for w in (False, True) for v in ("base", "carver")]
    return Obligation(
        name=name, harness=h_dtype, jobs=jobs, encodes=["BaseDiscretizer.transform/_prepare_data/_transform_quantitative", "transform_quantitative_feature"],
        bounds="fitted BaseDiscretizer / BinaryCarver (with and without NaN at fit); new 5-row frame whose column dtype is solver-chosen in {float64, float32, int64, uint64, object, Int64, UInt64, Float64} with an optional missing marker (NaN, None, pd.NA) at a solver-chosen position; magnitudes ~1 and 2**60 (integer dtypes); str_nan default or a 49-character name; carver output_dtype float/str",
        outside="other extension dtypes (decimal, string, categorical)", twin_every=2,
    )
