"""Ordinal kernel (C03 O3.3, C08 O8.2, C09 O9.1): the real OrdinalDiscretizer.fit
(_prepare_data, convert_to_labels, find_common_modalities, find_closest_modality,
convert_to_values, BaseDiscretizer.fit) on a concrete label column whose per-modality counts are
solver-chosen, a symbolic binary target and a symbolic min_freq."""
from __future__ import annotations

import numpy as np
import pandas as pd

from symx import Obligation, Violation
from harness.common import ranking_container
from symx.rebind import rebound

NAN = "__NAN__"
ENC = ["OrdinalDiscretizer.__init__", "OrdinalDiscretizer._prepare_data", "OrdinalDiscretizer.fit", "qualitative_discretizers.find_common_modalities",
       "qualitative_discretizers.find_closest_modality", "base_discretizers.convert_to_labels", "base_discretizers.convert_to_values",
       "GroupedList.group", "BaseDiscretizer.fit"]
LABELS = ["m", "c", "x", "a", "k", "b", "z"]  # deliberately not alphabetical


def h_ordinal(ctx, m, N, n_nan, ymode, props):
    from AutoCarver.discretizers import GroupedList, OrdinalDiscretizer

    labels = LABELS[:m]
    # solver-chosen counts per modality (0 = never observed), summing to N
    # (with a symbolic target every modality is observed at least once: an object-dtype stats array
    #  would turn numpy's nan/0 -> nan into a Python ZeroDivisionError; never-observed modalities are
    #  explored with the concrete target patterns, where the real float arrays are used)
    lo = 1 if ymode == "sym" else 0
    counts, left = [], N - lo * m
    if left < 0:
        from symx import Infeasible
        raise Infeasible()
    for i in range(m - 1):
        c = ctx.choose(f"c{i}", left + 1)
        counts.append(c + lo)
        left -= c
    counts.append(left + lo)
    col = [lab for lab, c in zip(labels, counts) for _ in range(c)] + [np.nan] * n_nan
    len_df = len(col)
    if ymode == "sym":
        ys = [ctx.int(f"y{r}", 0, 1) for r in range(len_df)]
        y = pd.Series(ys, dtype=object if not getattr(ctx, "concrete", False) else "int64")
    else:
        ys = [(r * 7 + ymode) % 3 % 2 for r in range(len_df)]
        y = pd.Series(ys)
    mf = ctx.real("min_freq")
    ctx.assume(mf > 0)
    ctx.assume(mf <= 0.5)
    X = pd.DataFrame({"f": pd.Series(col, dtype=object)})
    x_in = X.copy()
    d = OrdinalDiscretizer(["f"], min_freq=mf, values_orders={"f": GroupedList(ranking_container(ctx, labels, which=("list", "array", "grouped", "dict")[(len(col) + len(labels)) % 4]))}, copy=True, verbose=False)
    try:
        d.fit(X, y)
    except Violation:
        raise
    except AssertionError as e:
        ctx.require(False, "C08.clean-input-rejected", f"OrdinalDiscretizer.fit raised AssertionError on a well-formed sample (counts {counts}, nan {n_nan}): {str(e)[:150]}")
    except Exception as e:
        ctx.require(False, "C08.internal-error", f"OrdinalDiscretizer.fit raised {type(e).__name__}: {str(e)[:150]} (counts {counts}, nan {n_nan})")
    vo = d.values_orders["f"]
    leaders = list(vo)
    groups = [(l, list(vo.content[l])) for l in leaders]
    # ---- C08: well-formed partition of the input order (+ NaN as its own modality iff observed)
    allv = [v for _, mem in groups for v in mem]
    exp_vals = set(labels) | ({NAN} if n_nan else set())
    ctx.require(len(allv) == len(set(allv)) and set(allv) == exp_vals, "C08.partition", f"groups {groups!r} do not partition {sorted(exp_vals)!r}")
    ctx.require(all(l in mem for l, mem in groups), "C08.partition", f"a leader is not in its own group: {groups!r}")
    ctx.require(len(set(leaders)) == len(leaders) and set(vo.content.keys()) == set(leaders), "C08.partition", "leaders/content keys differ")
    # ---- C09: NaN always separate
    if n_nan:
        ctx.require((NAN, [NAN]) in groups and leaders[-1] == NAN, "C09.nan-merged", f"missing values must remain their own (last) modality: {groups!r}")
    real_groups = [(l, mem) for l, mem in groups if l != NAN]
    # ---- C03: every group is a contiguous run of the supplied ranking, groups in ranking order
    pos = {lab: i for i, lab in enumerate(labels)}
    flat = []
    for l, mem in real_groups:
        idx = sorted(pos[v] for v in mem)
        ctx.require(idx == list(range(idx[0], idx[0] + len(idx))), "C03.ordinal-not-contiguous", f"group {mem!r} is not a contiguous run of the ranking {labels!r}")
        flat.append(idx[0])
    ctx.require(flat == sorted(flat), "C03.ordinal-order", f"groups out of ranking order: {real_groups!r}")
    # ---- C09: every non-missing bucket holds >= min_freq of the rows unless one bucket remains
    cnt = {lab: c for lab, c in zip(labels, counts)}
    sizes = [sum(cnt[v] for v in mem) for _, mem in real_groups]
    if len(real_groups) > 1:
        for (l, mem), sz in zip(real_groups, sizes):
            # frequency as a user computes it: one float division (DESIGN F3/F4)
            ctx.require(sz / len_df >= mf, "C09.ordinal-bucket-below-min-freq",
                        f"bucket {mem!r} holds {sz}/{len_df} rows < min_freq while {len(real_groups)} buckets remain (counts {counts})")
    # ---- C07: inputs untouched
    if "C07" in props:
        ctx.require(X.equals(x_in) or all((a == b) or (a != a and b != b) for a, b in zip(X["f"], x_in["f"])), "C07.input-mutated", "X modified by fit (copy=True)")
    return dict(counters={"ok": 1}, sample=dict(counts=counts, n_nan=n_nan, groups=[mem for _, mem in groups]),
                result=dict(groups=[mem for _, mem in groups]))


def obligation(tier, props, name):
    quick = tier == "quick"
    jobs = []
    for m in ([2, 3, 4] if quick else [2, 3, 4, 5]):
        for N in ([3, 5, 6] if quick else [3, 5, 6, 8, 10]):
            if not quick and m == 5 and N > 8:
                continue
            for n_nan in (0, 2):
                ymodes = (["sym"] if N + n_nan <= 8 and N >= m else []) + [0, 1, 2]
                for ymode in ymodes:
                    jobs.append(dict(m=m, N=N, n_nan=n_nan, ymode=ymode, props=sorted(props)))
    return Obligation(
        name=name, harness=h_ordinal, jobs=jobs, encodes=ENC, rebindings=[],
        bounds=f"ranking of m <= {4 if quick else 5} modalities (non-alphabetical labels), N <= {6 if quick else 10} non-missing rows + 0/2 missing rows, per-modality counts "
               "solver-chosen (0 = never observed), target y_r symbolic in {0,1} per row (N+nan <= 8) else 3 concrete patterns, min_freq any real in (0, 0.5]",
        outside="more modalities/rows; total counts beyond 12 (F3: rates are compared exactly)",
        twin_every=7, budget_s=4.0,
    )
