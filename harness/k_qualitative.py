"""Qualitative transform kernel (C04/C05/C16/C17): a BaseDiscretizer fitted directly on a
GroupedList of concrete categories; every row of the probe frame is a solver-chosen element of a
small concrete universe (known leader, known grouped member, numeric member, unseen value, the
default group's name, NaN).  The domain is strings, which pandas' replace() compares natively, so
the values are concrete and the *choice* is the symbolic variable."""
from __future__ import annotations

import numpy as np
import pandas as pd

from symx import Obligation, Violation

NAN, OTHER = "__NAN__", "__OTHER__"
ENC = ["BaseDiscretizer.fit", "BaseDiscretizer._get_labels_per_values", "BaseDiscretizer.transform", "BaseDiscretizer._transform_qualitative",
       "BaseDiscretizer._check_new_values", "base_discretizers.nan_unique", "base_discretizers.applied_to_dict_list", "BaseDiscretizer.summary"]

CONFIGS = {
    # name: (ordered groups leader->members, has default, has nan)
    "plain": ([("A", ["A"]), ("B", ["b2", "B"]), ("C", ["C"])], False, False),
    "default": ([("A", ["A"]), (OTHER, ["r1", "r2", OTHER]), ("C", ["c2", "C"])], True, False),
    "nan_alone": ([("A", ["A"]), ("B", ["b2", "B"]), (NAN, [NAN])], False, True),
    "nan_merged": ([("A", [NAN, "A"]), ("B", ["b2", "B"])], False, True),
    "default_nan": ([("A", ["A"]), (OTHER, ["r1", OTHER]), (NAN, [NAN])], True, True),
    "numeric": ([("1", [1, "1"]), ("2", [2.0, "2"]), ("x", ["x"])], False, False),
    "falsy": ([("", [""]), ("0", [0, "0"]), ("x", ["x2", "x"])], False, False),  # known values that are falsy in Python
}
UNSEEN = ["zz", 7, "", 0]  # incl. falsy values: truthiness tests on lists of values (any(...)) are a classic slip


G_GROUPS = [("u", ["u"]), ("v", ["v2", "v"]), ("w", ["w"]), ("x", ["x"])]  # companion feature g: 5 known values, no default, no NaN
G_UNIVERSE = ["u", "v2", "w", "x", "zz", ""]


def h_qual(ctx, config, output_dtype, dropna, nrows, props, two_features=False):
    from AutoCarver.discretizers import GroupedList
    from AutoCarver.discretizers.utils.base_discretizers import BaseDiscretizer

    groups, has_default, has_nan = CONFIGS[config]
    gl = GroupedList({l: list(m) for l, m in groups})
    if two_features:
        return h_qual2(ctx, config, output_dtype, dropna, nrows, props)
    d = BaseDiscretizer(["f"], values_orders={"f": gl}, input_dtypes="str", output_dtype=output_dtype, str_nan=NAN,
                        str_default=OTHER, dropna=dropna, copy=True, verbose=False)
    d.fit()
    known = [v for _, m in groups for v in m]
    universe = [v for v in known if v != NAN] + UNSEEN + [np.nan]
    rows = [universe[ctx.choose(f"r{i}", len(universe))] for i in range(nrows)]
    X = pd.DataFrame({"f": pd.Series(rows, dtype=object), "other": list(range(nrows))})
    X.index = [5 + i for i in range(nrows)]
    x_in = X.copy()
    labels = [l for l, _ in groups]
    lab_of_leader = {l: (i if output_dtype == "float" else l) for i, l in enumerate(labels)}
    fitted = set(lab_of_leader.values())

    def isnan(v):
        return isinstance(v, float) and v != v

    def expected(v):
        if isnan(v):
            if not has_nan:
                return "reject"
            lead = next(l for l, m in groups if NAN in m)
            return lab_of_leader[lead] if dropna else "nan"
        for l, m in groups:
            if any(type(v) == type(x) and v == x for x in m) or any(v == x and not isinstance(x, str) and not isinstance(v, str) for x in m):
                return lab_of_leader[l]
        return lab_of_leader[OTHER] if has_default else "reject"

    exp = [expected(v) for v in rows]
    try:
        out = d.transform(X)
    except AssertionError as e:
        ctx.require("reject" in exp, "C05.valid-frame-rejected", f"rows {rows!r} rejected: {str(e)[:120]}")
        ctx.require("'f'" in str(e), "C05.error-does-not-name-feature", str(e)[:200])
        return dict(counters={"rejected": 1}, sample=dict(config=config, rows=rows, outcome="AssertionError"), result="rejected")
    except Violation:
        raise
    except Exception as e:
        ctx.require(False, "C05.internal-error", f"transform raised {type(e).__name__}: {e} on rows {rows!r}")
    ctx.require("reject" not in exp, "C05.unseen-accepted", f"rows {rows!r} contain a value that must be rejected, output {list(out['f'])!r}")
    col = list(out["f"])
    for v, o, e in zip(rows, col, exp):
        if e == "nan":
            # dropna=False: NaN stays NaN (whole NaN group is restored as NaN)
            ctx.require(isnan(o), "C04.nan-row", f"dropna=False: NaN row became {o!r}")
            continue
        if not dropna and has_nan and e == lab_of_leader[next(l for l, m in groups if NAN in m)]:
            continue  # group shared with NaN under dropna=False: never produced by a carver
        if "C05" in props:
            ctx.require(o in fitted and type(o) in (int, float, str, np.int64, np.float64), "C05.raw-value-leak", f"value {v!r} -> {o!r} not in fitted labels {fitted!r}")
        if "C04" in props:
            ctx.require(o == e, "C04.wrong-group", f"value {v!r} labelled {o!r}, its group's label is {e!r}")
    if "C04" in props:
        lpv = d.labels_per_values["f"]
        ctx.require(len(set(lab_of_leader.values())) == len(groups), "C04.label-collision", "labels not distinct")
        for l, m in groups:
            for x in m:
                ctx.require(lpv[x] == lab_of_leader[l], "C04.member-label", f"labels_per_values[{x!r}] = {lpv[x]!r}")
    if "C07" in props:
        ctx.require(list(out.index) == list(x_in.index) and list(out.columns) == list(x_in.columns), "C07.index-columns", "index/columns changed")
        ctx.require(list(out["other"]) == list(x_in["other"]), "C07.non-feature-column", "non-feature column changed")
        same = all((a == b) or (isnan(a) and isnan(b)) for a, b in zip(list(X["f"]), list(x_in["f"])))
        ctx.require(same, "C07.input-mutated", f"copy=True but caller's X changed: {list(X['f'])!r} vs {list(x_in['f'])!r}")
        if nrows >= 2:
            o1 = list(d.transform(X.iloc[[0]])["f"])[0]
            ctx.require(o1 == col[0] or (isnan(o1) and isnan(col[0])), "C07.row-purity", f"row label depends on other rows: {o1!r} vs {col[0]!r}")
    if set(props) & {"C04", "C07", "C16"}:
        d.summary()
        d.to_json()
        again = list(d.transform(X)["f"])
        ctx.require(all((a_ == b_) or (isnan(a_) and isnan(b_)) for a_, b_ in zip(again, col)), "C07.state-mutated-by-readonly-call", f"transform returns {again!r} after summary()/to_json(), {col!r} before")
    if "C16" in props:
        s = d.summary()
        recs = s.reset_index().to_dict("records")
        ctx.require(all(r["feature"] == "f" for r in recs), "C16.summary-other-feature", "rows of another feature")
        listed = [x for r in recs for x in r["content"]]
        strs = [v for v in known if isinstance(v, str) and v != OTHER and not (v == NAN and not dropna)]
        ctx.require(sorted(listed) == sorted(strs), "C16.summary-partition", f"summary lists {listed!r}, known string values are {strs!r}")
        for r in recs:
            for x in r["content"]:
                ctx.require(r["label"] == d.labels_per_values["f"][x], "C16.summary-label", f"summary says {x!r} -> {r['label']!r}")
    return dict(counters={"ok": 1}, sample=dict(config=config, rows=rows, out=col), result=[("nan" if isnan(o) else o) for o in col])


def h_qual2(ctx, config, output_dtype, dropna, nrows, props):
    """Two qualitative features transformed together (different numbers of distinct values per column:
    DataFrame.apply(result_type='expand') then returns a Series of lists instead of a DataFrame)."""
    from AutoCarver.discretizers import GroupedList
    from AutoCarver.discretizers.utils.base_discretizers import BaseDiscretizer

    groups, has_default, has_nan = CONFIGS[config]
    d = BaseDiscretizer(["f", "g"], values_orders={"f": GroupedList({l: list(m) for l, m in groups}), "g": GroupedList({l: list(m) for l, m in G_GROUPS})},
                        input_dtypes="str", output_dtype=output_dtype, str_nan=NAN, str_default=OTHER, dropna=dropna, copy=True, verbose=False)
    d.fit()
    single_f = BaseDiscretizer(["f"], values_orders={"f": GroupedList({l: list(m) for l, m in groups})}, input_dtypes="str", output_dtype=output_dtype, str_nan=NAN,
                               str_default=OTHER, dropna=dropna, copy=True, verbose=False)
    single_f.fit()
    single_g = BaseDiscretizer(["g"], values_orders={"g": GroupedList({l: list(m) for l, m in G_GROUPS})}, input_dtypes="str", output_dtype=output_dtype, str_nan=NAN,
                               str_default=OTHER, dropna=dropna, copy=True, verbose=False)
    single_g.fit()
    known = [v for _, m in groups for v in m]
    universe = [v for v in known if v != NAN][:3] + ["zz", ""] + ([np.nan] if has_nan else [])
    rows_f = [universe[ctx.choose(f"r{i}", len(universe))] for i in range(nrows)]
    rows_g = [G_UNIVERSE[ctx.choose(f"s{i}", len(G_UNIVERSE))] for i in range(nrows)]
    X = pd.DataFrame({"f": pd.Series(rows_f, dtype=object), "g": pd.Series(rows_g, dtype=object)})

    def run(obj, frame):
        try:
            return "ok", obj.transform(frame)
        except AssertionError as e:
            return "AssertionError:" + ("f" if "'f'" in str(e) else "") + ("g" if "'g'" in str(e) else ""), None
        except Exception as e:
            return f"{type(e).__name__}: {str(e)[:100]}", None

    s_both, o_both = run(d, X)
    s_f, o_f = run(single_f, X[["f"]])
    s_g, o_g = run(single_g, X[["g"]])
    ctx.require(not (s_both.startswith("ok") is False and not s_both.startswith("AssertionError")), "C05.internal-error", f"transform of two features raised {s_both} (rows f={rows_f}, g={rows_g})")
    expect_ok = s_f == "ok" and s_g == "ok"
    ctx.require((s_both == "ok") == expect_ok, "C05.unseen-accepted" if s_both == "ok" else "C05.valid-frame-rejected",
                f"two features together: {s_both}; separately f: {s_f}, g: {s_g} (rows f={rows_f}, g={rows_g})")
    if s_both != "ok":
        bad = ("f" if s_f != "ok" else "") + ("g" if s_g != "ok" else "")
        ctx.require(any(c in s_both for c in bad), "C05.error-does-not-name-feature", f"rejection {s_both!r} names none of the offending features {bad!r}")
        return dict(counters={"rejected": 1}, sample=dict(config=config, rows_f=rows_f, rows_g=rows_g, outcome=s_both), result="rejected")

    def same(a, b):
        return all((x == y) or (isinstance(x, float) and x != x and isinstance(y, float) and y != y) for x, y in zip(a, b))

    ctx.require(same(list(o_both["f"]), list(o_f["f"])) and same(list(o_both["g"]), list(o_g["g"])), "C04.wrong-group",
                f"output of a feature changes when another feature is transformed with it: f {list(o_both['f'])} vs {list(o_f['f'])}, g {list(o_both['g'])} vs {list(o_g['g'])}")
    return dict(counters={"ok": 1}, sample=dict(config=config, rows_f=rows_f, rows_g=rows_g), result=[str(v) for v in list(o_both["f"]) + list(o_both["g"])])


def obligation(tier, props, name):
    quick = tier == "quick"
    jobs = []
    for config in CONFIGS:
        for od in ("str", "float"):
            for dropna in (True, False):
                for nrows in ([0, 1, 2] if quick else [0, 1, 2, 3]):
                    jobs.append(dict(config=config, output_dtype=od, dropna=dropna, nrows=nrows, props=sorted(props)))
                if ("C05" in props or "C04" in props) and config in ("plain", "default", "nan_alone"):
                    for nrows in ([1, 2] if quick else [1, 2, 3]):
                        jobs.append(dict(config=config, output_dtype=od, dropna=dropna, nrows=nrows, props=sorted(props), two_features=True))
    return Obligation(
        name=name, harness=h_qual, jobs=jobs, encodes=ENC, rebindings=[],
        bounds=f"{len(CONFIGS)} fitted configurations (plain, default group, NaN alone/merged, numeric-valued members), frames of 0..{2 if quick else 3} rows, each row a solver-chosen "
               "element of {every known member, four unseen values (str, int, and the falsy '' and 0), NaN}; output_dtype in {str,float}; dropna in {T,F}",
        outside="category *text* is concrete (strings go through pandas.replace, which compares natively); longer frames",
        twin_every=3,
    )
