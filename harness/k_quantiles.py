"""Quantile kernel (C03 O3.2, C08 O8.1, C09 O9.2, C11 O11.1): the real find_quantiles /
np_find_quantiles / fit_feature on numpy object arrays of symbolic reals."""
from __future__ import annotations

import itertools

import numpy as np
import pandas as pd

from harness.common import contains, eqv, neq
from symx import Obligation, Violation
from symx.rebind import rebound, selftest_R2

NAN = "__NAN__"
ENC = ["quantitative_discretizers.find_quantiles", "quantitative_discretizers.np_find_quantiles", "quantitative_discretizers.fit_feature",
       "GroupedList.__init__", "GroupedList.append"]
RB = ["R1 isnan (symbolic value => not NaN; NaN rows are concrete)", "R2 digitize -> searchsorted (numpy's own implementation for increasing bins; differential self-test at start-up)"]


def feature_array(ctx, vals, n_nan):
    allv = list(vals) + [float("nan")] * n_nan
    if getattr(ctx, "concrete", False):
        return np.array([float(v) for v in allv], dtype=float)
    return np.array(allv, dtype=object)


def count_le(vals, b):
    """Number of rows <= b (forks on symbolic comparisons)."""
    return sum(1 for v in vals if bool(v <= b))


def h_quantiles(ctx, n, q, n_nan, mode, props):
    try:
        return _h_quantiles(ctx, n, q, n_nan, mode, props)
    except Violation as v:
        v.extra = dict(v.extra or {}, q=q)
        raise


def _h_quantiles(ctx, n, q, n_nan, mode, props):
    import AutoCarver.discretizers.utils.quantitative_discretizers as qd

    xs = [ctx.real(f"x{i}", feature_value=True) for i in range(n)]
    if mode == "sorted":
        for a, b in zip(xs, xs[1:]):
            ctx.assume(a <= b, "sorted input (result is a function of the multiset: proved by the 'perm' mode for small n)")
    len_df = n + n_nan
    arr = feature_array(ctx, xs, n_nan)
    with rebound(ctx, ["R1", "R2"]):
        try:
            quantiles = qd.find_quantiles(arr, q)
            X = pd.DataFrame({"f": pd.Series(arr, dtype=arr.dtype)})
            feat, order = qd.fit_feature("f", X, q, NAN)
        except Violation:
            raise
        except AssertionError as e:
            ctx.require(False, "C08.clean-input-rejected", f"find_quantiles/fit_feature raised AssertionError on finite values: {e}")
        except Exception as e:
            ctx.require(False, "C08.internal-error", f"find_quantiles/fit_feature raised {type(e).__name__}: {e}")
        quantiles = list(quantiles)
        # ---------------- C03: sorted, observed values, +inf sentinel last (before NaN)
        leaders = list(order)
        if "C03" in props or "C08" in props or "C09" in props:
            exp_tail = [float("inf")] + ([NAN] if n_nan else [])
            ctx.require(len(leaders) == len(quantiles) + len(exp_tail), "C03.order-shape", f"order {leaders!r} vs quantiles {quantiles!r}")
            tail = leaders[len(quantiles):]
            ctx.require(tail == exp_tail, "C03.inf-sentinel", f"order must end with inf (+NaN when present): {leaders!r}")
            for a, b in zip(quantiles, leaders):
                ctx.require(eqv(a, b), "C03.order-shape", "order does not start with the quantiles")
            for b in quantiles:
                ctx.require(contains(xs, b), "C03.boundary-not-observed", f"boundary {b!r} is not an observed training value")
            for a, b in zip(quantiles, quantiles[1:]):
                ctx.require(a <= b, "C03.boundaries-not-sorted", f"boundaries not sorted: {quantiles!r}")
        # ---------------- C08/C09: strictly increasing = unique leaders (well-formed partition)
        if "C08" in props or "C09" in props:
            for a, b in zip(quantiles, quantiles[1:]):
                ctx.require(a < b, "C08.duplicate-boundary", f"duplicate boundary in {quantiles!r} (n={n}, q={q}, nan={n_nan})")
            keys = list(order.content.keys())
            ctx.require(len(keys) == len(leaders), "C08.partition", "content keys != leaders")
        # ---------------- C09: frequent values are boundaries; bucket-size bound
        counts = None
        if "C09" in props and n > 0:
            thr = len_df / q
            # distinct values and their counts (symbolic comparisons)
            distinct = []
            for v in xs:
                for d in distinct:
                    if bool(eqv(d[0], v)):
                        d[1] += 1
                        break
                else:
                    distinct.append([v, 1])
            frequent = [d[0] for d in distinct if d[1] >= thr]
            for v in frequent:
                ctx.require(contains(quantiles, v), "C09.frequent-value-not-boundary", f"value {v!r} holds >= 1/q of the rows but is not a boundary {quantiles!r}")
            # bucket sizes: bucket index of v = number of boundaries strictly below v
            nb = len(quantiles) + 1
            counts, has_freq = [0] * nb, [False] * nb
            for val, cnt in distinct:
                i = sum(1 for bnd in quantiles if bool(bnd < val))
                counts[i] += cnt
                if cnt >= thr:
                    has_freq[i] = True
            for i in range(nb):
                if not has_freq[i]:
                    ctx.require(counts[i] * q <= 2.5 * len_df, "C09.oversized-bucket",
                                f"bucket #{i} holds {counts[i]} of {len_df} rows (> 2.5/q, q={q}) and contains no frequent value; boundaries {quantiles!r}")
        result = dict(n_boundaries=len(quantiles), counts=counts)
        # ---------------- permutation invariance (justifies the sorted mode) / C11 order-isomorphic re-encoding
        if mode == "perm" and n > 1:
            # sort the symbols by forks, run again on the sorted copy: same boundaries
            srt = []
            for v in xs:
                pos = 0
                while pos < len(srt) and bool(srt[pos] <= v):
                    pos += 1
                srt.insert(pos, v)
            q2 = list(qd.find_quantiles(feature_array(ctx, srt, n_nan), q))
            ctx.require(len(q2) == len(quantiles), "C11.row-order-dependence", f"boundaries depend on row order: {quantiles!r} vs {q2!r}")
            for a, b in zip(quantiles, q2):
                ctx.require(eqv(a, b), "C11.row-order-dependence", f"boundaries depend on row order: {quantiles!r} vs {q2!r}")
        if mode == "iso" and n > 0:
            ys = [ctx.real(f"y{i}", feature_value=True) for i in range(n)]
            for i, j in itertools.combinations(range(n), 2):
                ctx.assume((xs[i] < xs[j]) == (ys[i] < ys[j]))
                ctx.assume((xs[i] == xs[j]) == (ys[i] == ys[j]))
            q2 = list(qd.find_quantiles(feature_array(ctx, ys, n_nan), q))
            ctx.require(len(q2) == len(quantiles), "C11.monotone-map-changes-buckets", f"{len(quantiles)} boundaries before, {len(q2)} after a strictly increasing re-encoding")
            for i in range(n):
                r1 = sum(1 for b in quantiles if bool(b < xs[i]))
                r2 = sum(1 for b in q2 if bool(b < ys[i]))
                ctx.require(r1 == r2, "C11.monotone-map-changes-buckets", f"row {i} falls in bucket {r1} before and {r2} after a strictly increasing re-encoding")
    return dict(counters={"ok": 1}, sample=dict(n=n, q=q, n_nan=n_nan, mode=mode, x=xs, boundaries=quantiles), result=result)


def jobs(tier, props, modes):
    quick = tier == "quick"
    out = []
    for mode in modes:
        if mode == "sorted":
            ns = range(0, 10 if quick else 13)
        elif mode == "perm":
            ns = range(0, 5 if quick else 6)
        elif mode == "iso":
            ns = range(1, 5 if quick else 6)
        else:
            ns = range(0, 5 if quick else 7)
        for n in ns:
            for q in ((2, 3, 4, 5, 7, 8, 10) if quick else range(2, 11)):
                for n_nan in ((0, 1) if quick else (0, 1, 3)):
                    if n == 0 and n_nan == 0:
                        continue
                    if mode in ("perm", "iso") and n >= 5 and q not in (2, 3, 4, 5, 7, 10):
                        continue
                    out.append(dict(n=n, q=q, n_nan=n_nan, mode=mode, props=sorted(props)))
    return out


def obligation(tier, props, name, modes):
    quick = tier == "quick"
    selftest_R2()
    return Obligation(
        name=name, harness=h_quantiles, jobs=jobs(tier, props, modes), encodes=ENC, rebindings=RB,
        bounds=f"n symbolic reals (ties included): unsorted n <= {4 if quick else 6}; under the assumption x0<=...<=x(n-1) n <= {9 if quick else 12}; "
               f"NaN rows in {'{0,1}' if quick else '{0,1,3}'}; q = round(1/min_freq) in {'{2,3,4,5,7,8,10}' if quick else '2..10'}",
        outside="len_df > 15; q > 10 (min_freq < 0.1); min_freq values whose reciprocal is not an integer are covered through q only",
        twin_every=9,
        budget_s=4.0,
    )


# ----------------------------------------------------------------------------- larger samples through multiplicity profiles
def h_profile(ctx, q):
    """find_quantiles depends only on the order and the multiplicities of the values: k distinct values
    1..k with a solver-chosen multiplicity profile (j leading/trailing/middle values of multiplicity a, the
    others once) reach sample sizes far beyond the symbolic-row kernels."""
    import AutoCarver.discretizers.utils.quantitative_discretizers as qd

    k = [6, 10, 20, 30, 45, 60][ctx.choose("k", 6)]
    j = ctx.choose("j", 13)
    a = 1 + ctx.choose("a", 8)
    where = ctx.choose("where", 3)
    n_nan = [0, 5][ctx.choose("nan", 2)]
    j = min(j, k)
    if where == 0:
        heavy = set(range(j))
    elif where == 1:
        heavy = set(range(k - j, k))
    else:
        heavy = set(range((k - j) // 2, (k - j) // 2 + j))
    counts = [a if i in heavy else 1 for i in range(k)]
    arr = np.array([float(i + 1) for i, c in enumerate(counts) for _ in range(c)] + [np.nan] * n_nan)
    len_df = len(arr)
    try:
        quantiles = list(qd.find_quantiles(arr, q))
    except Exception as e:
        ctx.require(False, "C08.internal-error", f"find_quantiles raised {type(e).__name__}: {str(e)[:120]} (k={k}, j={j}, a={a}, q={q})")
    thr = len_df / q
    ctx.require(all(x < y for x, y in zip(quantiles, quantiles[1:])), "C08.duplicate-boundary", f"boundaries not strictly increasing: {quantiles[:8]}... (k={k}, j={j}, a={a}, q={q})")
    ctx.require(all(b in set(arr[~np.isnan(arr)]) for b in quantiles), "C03.boundary-not-observed", "boundary is not an observed value")
    frequent = [float(i + 1) for i, c in enumerate(counts) if c >= thr]
    for v in frequent:
        ctx.require(v in quantiles, "C09.frequent-value-not-boundary", f"value {v} holds >= 1/q of the rows but is not a boundary (k={k}, j={j}, a={a}, q={q})")
    bounds = quantiles + [float("inf")]
    lo = -float("inf")
    for b in bounds:
        vals_in = [(i + 1, c) for i, c in enumerate(counts) if lo < i + 1 <= b]
        size = sum(c for _, c in vals_in)
        if not any(float(v) in frequent for v, _ in vals_in):
            ctx.require(size * q <= 2.5 * len_df, "C09.oversized-bucket",
                        f"bucket ({lo}, {b}] holds {size} of {len_df} rows (> 2.5/q, q={q}) and contains no frequent value (k={k} distinct values, {j} of multiplicity {a} at {['start', 'end', 'middle'][where]})")
        lo = b
    return dict(counters={"ok": 1}, sample=dict(k=k, j=j, a=a, q=q, where=where, n=len_df, boundaries=len(quantiles)), result=dict(nb=len(quantiles)))


def h_minfreq_link(ctx, mf, n):
    """O9.6: the documented contract is stated with min_freq, the code works with q = f(1/min_freq): on a sample of n distinct
    values in which one value is repeated so that it holds exactly ceil(min_freq*n) rows (>= min_freq), at a solver-chosen place,
    that value must be a boundary of the fitted ContinuousDiscretizer."""
    import math

    from AutoCarver.discretizers.utils.quantitative_discretizers import ContinuousDiscretizer

    k = math.ceil(mf * n - 1e-12)
    start = ctx.choose("start", n - k + 1)
    vals = [float(i) for i in range(n)]
    for i in range(start, start + k):
        vals[i] = float(start)
    X = pd.DataFrame({"f": vals})
    y = pd.Series([i % 2 for i in range(n)])
    d = ContinuousDiscretizer(["f"], min_freq=mf, copy=True, verbose=False)
    try:
        d.fit(X, y)
    except Violation:
        raise
    except Exception as e:
        ctx.require(False, "C08.internal-error", f"ContinuousDiscretizer(min_freq={mf}).fit raised {type(e).__name__}: {str(e)[:120]}")
    bounds = [v for v in d.values_orders["f"] if not isinstance(v, str)]
    frac = 1.0 / mf - math.floor(1.0 / mf + 1e-9)
    rounds = "exact" if frac < 1e-9 else ("down" if frac < 0.5 else "up")
    ctx.require(float(start) in bounds, "C09.frequent-value-not-boundary",
                f"min_freq={mf}: value {float(start)} holds {k}/{n} = {k / n} >= min_freq of the rows but is not a boundary {bounds}",
                dict(reciprocal_of_min_freq_rounds=rounds))
    ctx.require(all(a < b for a, b in zip(bounds, bounds[1:])) and bounds[-1] == float("inf"), "C03.boundaries-not-sorted", f"boundaries {bounds}")
    return dict(counters={"ok": 1}, sample=dict(min_freq=mf, n=n, start=start, boundaries=bounds), result=dict(nb=len(bounds)))


def obligation_minfreq_link(tier, name):
    mfs = [0.1, 0.15, 0.16, 0.2, 0.3, 0.35] + ([] if tier == "quick" else [0.05, 0.06, 0.07, 0.12, 0.25, 0.4, 0.45])
    return Obligation(
        name=name, harness=h_minfreq_link, jobs=[dict(mf=mf, n=n) for mf in mfs for n in ((50,) if tier == "quick" else (50, 100))], encodes=["ContinuousDiscretizer.__init__/fit"] + ENC,
        bounds="50 (100) rows, all distinct but one value repeated ceil(min_freq*n) times at a solver-chosen place; min_freq in " + str(mfs),
        outside="other repetition profiles (O9.5)", twin=False, budget_s=5.0,
    )


def obligation_profile(tier, name):
    return Obligation(
        name=name, harness=h_profile, jobs=[dict(q=q) for q in range(2, 11)], encodes=ENC,
        bounds="k in {6,10,20,30,45,60} distinct values, j <= 12 of them with multiplicity a <= 8 at the start / end / middle, the others once; 0/5 missing rows; q in 2..10 (samples up to ~150 rows)",
        outside="other multiplicity profiles", twin=False, budget_s=5.0,
    )
