"""Selection-logic kernel (C01 O1.2, C02 O2.1, C16 O16.1, C08 O8.5, C11 O11.2): the real
BaseCarver._get_best_combination with the real _get_best_association, _test_viability,
_historize_viability_test, _combination_formatter, filter_nan, consecutive_combinations,
nan_combinations, order_apply_combination, xagg_apply_order, BinaryCarver._grouper/_printer and
GroupedList, run on real pandas crosstabs whose cells are symbolic.

measure modes
  abstract : R6 — _association_measure returns one fresh real >= 0 per distinct grouped table
             (the selection logic is then proved for ANY measure, ties included);
  real     : cells are solver-chosen concrete integers, the real scipy-based measure runs.
"""
from __future__ import annotations

import itertools
import math

import numpy as np
import pandas as pd

from harness.common import eqv
from symx import Obligation, Sym, Violation
from symx.rebind import rebound

NAN = "__NAN__"
ENC = [
    "BaseCarver._get_best_combination", "BaseCarver._get_best_association", "BaseCarver._test_viability", "BaseCarver._historize_viability_test",
    "BaseCarver._combination_formatter", "base_carver.filter_nan", "base_carver.consecutive_combinations", "base_carver.combinations_at_index",
    "base_carver.nan_combinations", "base_carver.order_apply_combination", "base_carver.xagg_apply_order", "BinaryCarver._grouper",
    "BinaryCarver._printer", "GroupedList.group_list", "GroupedList.get_group",
]
LABELSETS = {
    # quantile labels: lexicographic order differs from the natural one
    "quant": ["x <= 1.000e+00", "1.000e+00 < x <= 2.000e+00", "2.000e+00 < x <= 3.000e+00", "3.000e+00 < x <= 4.000e+00", "4.000e+00 < x"],
    # ordinal strings in non-alphabetical natural order
    "ord": ["m", "c", "x", "a", "k"],
    # alphabetical (lexicographic == natural)
    "alpha": ["a", "b", "c", "d", "e"],
}


def spec_partitions(k, max_groups):
    """All partitions of range(k) into 2..max_groups contiguous groups (specification side)."""
    out = []
    for ncuts in range(1, max_groups):
        for cuts in itertools.combinations(range(1, k), ncuts):
            b = [0] + list(cuts) + [k]
            out.append([list(range(b[i], b[i + 1])) for i in range(len(b) - 1)])
    return out


def spec_nan_placements(groups, max_groups):
    """Stage 2: every re-merge of the stage-1 groups into 1..max_groups contiguous groups with NaN
    inside any group, plus NaN alone when fewer than max_groups groups remain.  Items are indices
    of stage-1 groups; NaN is the string NAN."""
    g = len(groups)
    out = []
    parts = []
    for ncuts in range(1, min(max_groups, g)):  # at least two groups of non-missing modalities
        for cuts in itertools.combinations(range(1, g), ncuts):
            b = [0] + list(cuts) + [g]
            parts.append([list(range(b[i], b[i + 1])) for i in range(len(b) - 1)])
    for p in parts:
        for i in range(len(p)):
            q = [list(x) for x in p]
            q[i] = q[i] + [NAN]
            out.append(q)
        if len(p) < max_groups:
            out.append([list(x) for x in p] + [[NAN]])
    return out


def _pb(x):
    """numpy bools -> Python bools (np.bool_ & SBool would go through numpy's ufunc machinery)."""
    return bool(x) if isinstance(x, np.bool_) else x


def sand(conds):
    r = True
    for cnd in conds:
        cnd = _pb(cnd)
        if cnd is False:
            return False
        if cnd is True:
            continue
        r = cnd if r is True else (r & cnd)
    return r

def sor(conds):
    r = False
    for cnd in conds:
        cnd = _pb(cnd)
        if cnd is True:
            return True
        if cnd is False:
            continue
        r = cnd if r is False else (r | cnd)
    return r

def snot(cnd):
    cnd = _pb(cnd)
    return (not cnd) if isinstance(cnd, bool) else ~cnd

def lt_rate(a, b):  # pos_a/sz_a < pos_b/sz_b with concrete sizes (F3)
    (pa, sa), (pb, sb) = a, b
    return pa * sb < pb * sa

def eq_rate(a, b):
    (pa, sa), (pb, sb) = a, b
    return eqv(pa * sb, pb * sa)


def eqv_bool(a, b):
    a, b = _pb(a), _pb(b)
    if isinstance(a, bool) and isinstance(b, bool):
        return a == b
    if isinstance(a, bool):
        return b if a else snot(b)
    if isinstance(b, bool):
        return a if b else snot(a)
    return a == b



class Table:
    """Symbolic/concrete crosstab with helpers for the specification side."""

    def __init__(self, rows):
        self.rows = rows  # list of (neg, pos) or None (modality absent from the sample)

    def group_sums(self, members):
        neg = pos = 0
        for i in members:
            if self.rows[i] is None:
                continue
            neg = neg + self.rows[i][0]
            pos = pos + self.rows[i][1]
        return neg, pos


def build_tables(ctx, k, totals, has_nan, nan_total, prefix, absent=(), real=False):
    """k base rows (+ optional NaN row at index k): row totals concrete (F3), positives symbolic."""
    rows = []
    idx_totals = list(totals) + ([nan_total] if has_nan else [])
    for i, R in enumerate(idx_totals):
        if i in absent:
            rows.append(None)
            continue
        if real:
            b = ctx.choose(f"{prefix}b{i}", R + 1)
        else:
            b = ctx.count(f"{prefix}b{i}", 0, R)
        rows.append((R - b, b))
    return Table(rows)


_ABSENT = {}


def absent_row():
    """What the real BinaryCarver._aggregator yields for a known label that is absent from the
    sample (the harness must start from states the real aggregation can produce)."""
    if "row" not in _ABSENT:
        from AutoCarver.carvers import binary_carver as bm
        from AutoCarver.discretizers import GroupedList

        c = bm.BinaryCarver(min_freq=0.1, sort_by="cramerv", qualitative_features=["f"], copy=True)
        xt = c._aggregator(["f"], pd.DataFrame({"f": ["a", "a"]}), pd.Series([0, 1]), {"f": GroupedList(["a", "zz"])})["f"]
        _ABSENT["row"] = [np.float64(v) for v in xt.loc["zz"]]  # numpy scalars keep numpy's 0/0 -> nan
    return list(_ABSENT["row"])


def to_frame(ctx, table, labels):
    conc = getattr(ctx, "concrete", False)
    data = []
    for r in table.rows:
        data.append(absent_row() if r is None else [r[0], r[1]])
    allsym = any(isinstance(c, Sym) for row in data for c in row)
    df = pd.DataFrame(data, index=labels, columns=[0, 1], dtype=object if allsym else None)
    df.index.name = "f"
    df.columns.name = "y"
    return df


def h_select(ctx, k, labelset, totals, has_nan, nan_total, dev, max_n_mod, mfm, dropna, sort_by, measure, ftype, props):
    try:
        return _h_select(ctx, k, labelset, totals, has_nan, nan_total, dev, max_n_mod, mfm, dropna, sort_by, measure, ftype, props)
    except Violation as v:
        v.extra = dict(v.extra or {}, dev=bool(dev), dev_absent=bool(dev and dev.get("absent")), nan=has_nan, dropna=dropna,
                       lexicographic_is_natural=(labelset == "alpha"))
        raise


def _h_select(ctx, k, labelset, totals, has_nan, nan_total, dev, max_n_mod, mfm, dropna, sort_by, measure, ftype, props):
    from AutoCarver.carvers import binary_carver as bm
    from AutoCarver.discretizers import GroupedList

    conc = getattr(ctx, "concrete", False)
    real = measure == "real" or (conc and getattr(ctx, "purpose", "replay") == "replay")
    labels = LABELSETS[labelset][:k]
    all_labels = labels + ([NAN] if has_nan else [])
    train = build_tables(ctx, k, totals, has_nan, nan_total, "t", real=(measure == "real"))
    # both target classes are present in the training sample
    tot_pos = sum(r[1] for r in train.rows)
    tot_neg = sum(r[0] for r in train.rows)
    ctx.assume(tot_pos >= 1)
    ctx.assume(tot_neg >= 1)
    devt = None
    if dev:
        devt = build_tables(ctx, k, dev["totals"], has_nan, dev.get("nan_total", 0), "d", absent=tuple(dev.get("absent", ())), real=(measure == "real"))
        dpos = sum(r[1] for r in devt.rows if r is not None)
        dneg = sum(r[0] for r in devt.rows if r is not None)
        ctx.assume(dpos >= 1)
        ctx.assume(dneg >= 1)
    if mfm == "sym":
        mf = ctx.real("min_freq_mod")
        ctx.assume(mf > 0)
        ctx.assume(mf <= 0.5)
    else:
        mf = mfm
    kw = {"quantitative_features": ["f"]} if ftype == "quant" else ({"ordinal_features": ["f"], "values_orders": {"f": GroupedList(list(labels))}} if ftype == "ord" else {"qualitative_features": ["f"]})
    c = bm.BinaryCarver(min_freq=0.1, sort_by=sort_by, max_n_mod=max_n_mod, min_freq_mod=mf, dropna=dropna, copy=True, **kw)
    c.values_orders = {"f": GroupedList(list(all_labels))}
    order = GroupedList(list(all_labels))
    xagg = to_frame(ctx, train, all_labels)
    xagg_dev = to_frame(ctx, devt, all_labels) if devt is not None else None

    # ---------------- measure
    shadow = {}
    memo = {}
    calls = []

    def measure_symbol(key):
        if key not in memo:
            name = "meas_" + "|".join(",".join(str(i) for i in sorted(g)) for g in sorted(key, key=lambda g: min(g)))
            v = ctx.real(name)
            ctx.assume(v >= 0)
            memo[key] = v
        return memo[key]

    def abstract_measure(xtab, n_obs=None):
        # identify the grouping from the table's cells: each row must be the exact sum of a set of
        # base rows; the set is recovered by matching the row's (neg,pos) against candidate sums.
        rows = [(xtab.iloc[r, 0], xtab.iloc[r, 1]) for r in range(xtab.shape[0])]
        calls.append((list(xtab.index), rows, n_obs))
        key = CURRENT["resolver"](list(xtab.index), rows)
        v = measure_symbol(key)
        return {"cramerv": v, "tschuprowt": v}

    CURRENT = {"resolver": None}

    def resolver(idx, rows):
        """Map the table handed to the measure to a set of groups of base indices, and check that
        its cells are exactly the grouped sums (C01: the measured table is the grouped table)."""
        cand = CURRENT["candidates"]  # list of (key, {leader_label: members})
        leaders = frozenset(idx)
        matches = [(key, gmap) for key, gmap in cand if frozenset(gmap.keys()) == leaders]
        ctx.require(len(matches) >= 1, "C01.measured-table", f"measure requested for a table with index {idx!r} that is no candidate grouping")
        chosen = None
        for key, gmap in matches:
            ok = True
            for lab, (neg, pos) in zip(idx, rows):
                eneg, epos = CURRENT["table"].group_sums(gmap[lab])
                if ctx.prove(sand([eqv(neg, eneg), eqv(pos, epos)])) is not True:
                    ok = False
                    break
            if ok:
                chosen = key
                break
        ctx.require(chosen is not None, "C01.measured-table", f"table handed to the measure (index {idx!r}) is not the grouped sum of any candidate grouping")
        return chosen

    def set_stage(table, candidates):
        CURRENT["table"] = table
        CURRENT["candidates"] = candidates
        CURRENT["resolver"] = resolver

    if not real:
        c._association_measure = abstract_measure

    def measure_of(key, table, groups_members):
        """Measure of a candidate grouping for the specification side."""
        if not real:
            return measure_symbol(key)
        data = [list(table.group_sums(mem)) for mem in groups_members]
        xt = pd.DataFrame(data, columns=[0, 1])
        n_obs = sum(sum(r) for r in data)
        try:
            return bm.BinaryCarver._association_measure(c, xt, n_obs=n_obs)[sort_by]
        except Exception:
            return float("nan")

    # ---------------- candidates of stage 1 (specification side)
    parts = spec_partitions(k, max_n_mod)
    cand1 = []
    for p in parts:
        key = frozenset(frozenset(g) for g in p)
        cand1.append((key, {labels[g[0]]: g for g in p}, p))
    # stage-1 tables exclude the NaN row
    set_stage(train, [(key, gmap) for key, gmap, _ in cand1])

    # ---------------- run the real code
    stage2_pending = {"done": False}
    orig_gba = c._get_best_association

    def gba_wrapper(feature, order_, xagg_, combinations, *, xagg_dev=None, dropna=False):
        if dropna:  # stage 2: candidates are relative to the stage-1 result
            stage2_pending["done"] = True
            groups1 = CURRENT["stage1_groups"] = [sorted(labels.index(v) for v in order_.get(l)) for l in order_ if l != NAN]
            cands = []
            for q in spec_nan_placements(groups1, max_n_mod):
                members = []
                for grp in q:
                    mem = []
                    for it in grp:
                        mem += [k] if it == NAN else groups1[it]
                    members.append(mem)
                key = frozenset(frozenset(m_) for m_ in members)
                gmap = {}
                for grp, mem in zip(q, members):
                    lead = NAN if grp[0] == NAN else labels[groups1[grp[0]][0]]
                    gmap[lead] = mem
                cands.append((key, gmap))
            CURRENT["stage2_cands"] = cands
            set_stage(train, cands)
        return orig_gba(feature, order_, xagg_, combinations, xagg_dev=xagg_dev, dropna=dropna)

    c._get_best_association = gba_wrapper
    # real-measure mode works on concrete integer crosstabs: the unmodified numpy/scipy code runs
    with rebound(ctx, ["R4", "R5"] if (measure == "abstract" and not conc) else []):
        try:
            res = c._get_best_combination("f", order, xagg, xagg_dev=xagg_dev)
        except Violation:
            raise
        except AssertionError as e:
            ctx.require(False, "C08.selection-assertion", f"_get_best_combination raised AssertionError on a well-formed crosstab: {str(e)[:200]}")
        except Exception as e:
            import traceback
            ctx.require(False, "C08.selection-internal-error", f"_get_best_combination raised {type(e).__name__}: {str(e)[:200]} | {traceback.format_exc(limit=-3)[-600:]}")

    # ---------------- specification: viability
    def freq_ok(table, members_list, total, other_ok=True):
        """every group holds >= mf of `total` rows"""
        conds = []
        for mem in members_list:
            neg, pos = table.group_sums(mem)
            sz = neg + pos
            conds.append(sz / total >= mf)
        return conds

    def rates(table, members_list):
        out = []
        for mem in members_list:
            neg, pos = table.group_sums(mem)
            sz = neg + pos
            out.append((pos, sz))
        return out

    def viability(members_list, total_train, dev_total):
        """returns (must, may): strict and weak reading of the property's viability.  They differ
        (a) in how rate ties of non-adjacent groups are ranked between train and dev and (b) in
        whether a NaN-only group counts as order-adjacent to the last group (the statement does not
        say): the code may decide either way there."""
        conds = list(freq_ok(train, members_list, total_train))
        must = list(conds)
        may = list(conds)
        rt = rates(train, members_list)
        nan_alone_last = len(members_list) > 1 and members_list[-1] == [k]
        for n_, (a, b) in enumerate(zip(rt, rt[1:])):
            must.append(snot(eq_rate(a, b)))
            if not (nan_alone_last and n_ == len(rt) - 2):
                may.append(snot(eq_rate(a, b)))
        if devt is not None:
            # a group entirely absent from dev has frequency 0 < mf
            dsz = [devt.group_sums(mem) for mem in members_list]
            for neg, pos in dsz:
                sz = neg + pos
                if not isinstance(sz, Sym) and sz == 0:
                    return False, False
            dconds = list(freq_ok(devt, members_list, dev_total))
            must += dconds
            may += dconds
            rd = rates(devt, members_list)
            for n_, (a, b) in enumerate(zip(rd, rd[1:])):
                must.append(snot(eq_rate(a, b)))
                if not (nan_alone_last and n_ == len(rd) - 2):
                    may.append(snot(eq_rate(a, b)))
            n = len(members_list)
            for i in range(n):
                for j in range(i + 1, n):
                    # strict: same weak order; weak: no strict inversion
                    must.append(eqv_bool(lt_rate(rt[i], rt[j]), lt_rate(rd[i], rd[j])))
                    must.append(eqv_bool(lt_rate(rt[j], rt[i]), lt_rate(rd[j], rd[i])))
                    may.append(snot(sand([lt_rate(rt[i], rt[j]), lt_rate(rd[j], rd[i])])))
                    may.append(snot(sand([lt_rate(rt[j], rt[i]), lt_rate(rd[i], rd[j])])))
        return sand(must), sand(may)

    nn_total = sum(totals)
    dev_nn_total = sum(t for i, t in enumerate(dev["totals"]) if i not in dev.get("absent", ())) if dev else None
    full_total = nn_total + (nan_total if has_nan else 0)
    dev_full_total = (dev_nn_total + (dev.get("nan_total", 0) if has_nan else 0)) if dev else None

    stage1 = [(key, [g for g in p], viability([g for g in p], nn_total, dev_nn_total)) for key, _, p in cand1]

    def some_must(cands):
        return sor([v[0] for _, _, v in cands])

    # ---------------- compare with the specification
    stage2_expected = dropna and has_nan
    if res is None:
        # allowed only if one of the searches has no viable candidate
        if not stage2_pending["done"]:
            ctx.require(snot(some_must(stage1)), "C01.dropped-although-viable", f"no grouping returned although a viable stage-1 grouping exists (k={k}, totals={totals}, max_n_mod={max_n_mod})")
            outcome = "none-stage1"
        else:
            groups1 = CURRENT["stage1_groups"]
            st2 = []
            for key, gmap in CURRENT["stage2_cands"]:
                members = list(gmap.values())
                st2.append((key, members, viability(order_members(members, k), full_total, dev_full_total)))
            ctx.require(snot(some_must(st2)), "C01.dropped-although-viable", f"no grouping returned although a viable NaN placement exists (stage-1 groups {groups1})")
            outcome = "none-stage2"
        return dict(counters={outcome: 1}, sample=dict(k=k, totals=totals, outcome=outcome), result=dict(outcome=outcome))

    new_order, new_xagg, new_xagg_dev = res
    got_groups = []
    for l in new_order:
        mem = [(k if v == NAN else labels.index(v)) for v in new_order.get(l)]
        got_groups.append(mem)
    got_key = frozenset(frozenset(g) for g in got_groups)
    allm = sorted(i for g in got_groups for i in g)
    ctx.require(allm == list(range(k + (1 if has_nan else 0))), "C08.partition", f"returned order {dict(new_order.content)!r} is not a partition of the modalities")

    if stage2_expected:
        ctx.require(stage2_pending["done"], "C01.nan-not-placed", "dropna=True with a NaN modality: the NaN placement search did not run")
    final_nonnan = [sorted(i for i in g if i != k) for g in got_groups]
    final_nonnan = [g for g in final_nonnan if g]
    # contiguity (C03 O3.5)
    for g in final_nonnan:
        ctx.require(g == list(range(g[0], g[0] + len(g))), "C03.non-contiguous-group", f"group {g} is not contiguous in the natural order")
    # --- stage 1 result: the grouping before NaN placement
    if stage2_pending["done"]:
        groups1 = CURRENT["stage1_groups"]
    else:
        groups1 = final_nonnan
    key1 = frozenset(frozenset(g) for g in groups1)
    entry1 = [e for e in stage1 if e[0] == key1]
    ctx.require(len(entry1) == 1, "C01.not-a-candidate", f"stage-1 grouping {groups1} is not a partition into 2..{max_n_mod} contiguous groups")
    ctx.require(len(groups1) <= max_n_mod, "C02.too-many-groups", f"{len(groups1)} groups > max_n_mod={max_n_mod}")
    must1, may1 = entry1[0][2]
    ctx.require(may1, "C01.non-viable-accepted" if "C02" not in props else "C02.constraint-violated",
                f"stage-1 grouping {groups1} is not viable (min_freq_mod / distinct adjacent rates / dev robustness) for totals={totals}")
    m1 = measure_of(key1, train, groups1)
    for key, p, (must, may) in stage1:
        if key == key1:
            continue
        mo = measure_of(key, train, p)
        if isinstance(mo, float) and mo != mo:
            continue
        # a viable grouping with a strictly larger measure must not exist
        ctx.require(snot(sand([must, mo > m1])), "C01.not-optimal",
                    f"stage-1 grouping {groups1} chosen although {p} is viable and more associated (totals={totals}, max_n_mod={max_n_mod})")
    outcome = "stage1"
    if stage2_pending["done"]:
        st2 = []
        for key, gmap in CURRENT["stage2_cands"]:
            members = list(gmap.values())
            st2.append((key, members, viability(order_members(members, k), full_total, dev_full_total)))
        e2 = [e for e in st2 if e[0] == got_key]
        ctx.require(len(e2) >= 1, "C01.not-a-candidate", f"final grouping {got_groups} is not a NaN placement over the stage-1 groups {groups1}")
        ctx.require(len(got_groups) <= max_n_mod, "C02.too-many-groups", f"{len(got_groups)} groups (NaN group included) > max_n_mod={max_n_mod}")
        must2, may2 = e2[0][2]
        ctx.require(may2, "C01.non-viable-accepted" if "C02" not in props else "C02.constraint-violated", f"final grouping {got_groups} (NaN placed) is not viable")
        m2 = measure_of(got_key, train, e2[0][1])
        for key, members, (must, may) in st2:
            if key == got_key:
                continue
            mo = measure_of(key, train, members)
            if isinstance(mo, float) and mo != mo:
                continue
            ctx.require(snot(sand([must, mo > m2])), "C01.not-optimal", f"NaN placement {got_groups} chosen although {members} is viable and more associated")
        outcome = "stage2"
    elif has_nan:
        # dropna=False: NaN row untouched
        ctx.require([k] in got_groups, "C02.nan-touched", f"dropna=False but NaN was merged: {got_groups}")
    # --- returned crosstabs are the grouped sums
    if "C01" in props:
        for l, mem in zip(list(new_order), got_groups):
            eneg, epos = train.group_sums(mem)
            rown = new_xagg.loc[l]
            ctx.require(sand([eqv(rown[0], eneg), eqv(rown[1], epos)]), "C01.returned-xagg", f"returned train crosstab row {l!r} is not the sum of its group")
    # --- history (C16)
    if "C16" in props:
        check_history(ctx, c, labels, k, got_groups, groups1, sort_by, stage2_pending["done"], has_nan)
    return dict(counters={outcome: 1}, sample=dict(k=k, totals=totals, groups=got_groups, outcome=outcome), result=dict(groups=[sorted(g) for g in got_groups]),
                twin_distinct=[n for n in getattr(ctx, "symbols", {}) if n.startswith("meas_")])


def order_members(members, k):
    """Order groups by their smallest non-NaN base index (NaN-only group last) = natural order."""
    def keyf(m):
        nn = [i for i in m if i != k]
        return (min(nn) if nn else 10**6)
    return sorted(members, key=keyf)


def check_history(ctx, c, labels, k, got_groups, groups1, sort_by, stage2, has_nan):
    hist = c._history["f"]
    ctx.require(len(hist) >= 1, "C16.history-empty", "no history recorded")
    for st, final in ((False, groups1), (True, got_groups)):
        if st and not stage2:
            continue
        entries = [h for h in hist if h.get("grouping_nan") is st and "combination" in h]
        ctx.require(len(entries) >= 1, "C16.history-missing-stage", f"no history entries for stage grouping_nan={st}")
        viable = [h for h in entries if h["viability"] is True]
        ctx.require(len(viable) == 1, "C16.history-viable-count", f"{len(viable)} combinations flagged viable in stage grouping_nan={st}")
        last = viable[-1]
        combo = [sorted((k if v == NAN else labels.index(v)) for v in grp) for grp in last["combination"]]
        ctx.require(sorted(combo) == sorted(sorted(g) for g in final), "C16.history-viable-is-not-fitted",
                    f"combination flagged viable {combo} is not the fitted grouping {final}")
        # entries ranked after the viable one are 'Not checked', before it are non-viable
        seen_viable = False
        for h in entries:
            if h is last:
                seen_viable = True
                continue
            if seen_viable:
                ctx.require(h["viability"] is None and h["viability_message"] == ["Not checked"], "C16.history-not-checked", "combination ranked after the viable one is not flagged 'Not checked'")
            else:
                ctx.require(h["viability"] is False, "C16.history-flag", "combination ranked before the viable one is not flagged non-viable")
        # measures are recorded in non-increasing order
        vals = [h[sort_by] for h in entries]
        for a, b in zip(vals, vals[1:]):
            ctx.require(a >= b, "C16.history-order", "history is not ordered by decreasing association")


# ----------------------------------------------------------------------------- jobs
def compositions(n, k, lo=1):
    if k == 1:
        if n >= lo:
            yield (n,)
        return
    for first in range(lo, n - lo * (k - 1) + 1):
        for rest in compositions(n - first, k - 1, lo):
            yield (first,) + rest


def jobs(tier, props, measure):
    """Shape grid.  Cost drivers (measured): the NaN placement stage with max_n_mod=3 over 3 stage-1
    groups sorts 9 symbolic measures (500-1500 paths per job), dev crosstabs double the symbolic
    cells; plain stage-1 jobs take 5-50 paths."""
    quick = tier == "quick"
    out = []
    LS = (("quant", "quant"), ("ord", "ord"), ("alpha", "qual"))

    def add(k, totals, mnm, labelsets, nan_cfgs, devs, mfms, sort_bys=("cramerv",)):
        for labelset, ftype in labelsets:
            for has_nan, nan_total, dropna in nan_cfgs:
                for dev in devs:
                    for mfm in mfms:
                        for sort_by in sort_bys:
                            out.append(dict(k=k, labelset=labelset, totals=tuple(totals), has_nan=has_nan, nan_total=nan_total, dev=dev, max_n_mod=mnm,
                                            mfm=mfm, dropna=dropna, sort_by=sort_by, measure=measure, ftype=ftype, props=sorted(props)))

    NO_NAN = [(False, 0, True)]
    NAN_KEEP = [(True, 2, False)]
    NAN_DROP = [(True, 2, True)]

    def dev_of(totals, absent=None):
        d = dict(totals=tuple(max(1, t - 1) for t in totals), nan_total=1)
        if absent is not None:
            d["absent"] = (absent,)
        return d

    if measure == "abstract":
        # stage 1 only: all label sets, several totals, concrete and symbolic threshold
        for totals in ([(1, 5), (3, 3)] if quick else [(1, 5), (2, 4), (3, 3), (5, 1)]):
            add(2, totals, 2, LS, NO_NAN + NAN_KEEP, [None], (0.25, "sym"))
            add(2, totals, 3, LS[:1] if quick else LS, NAN_DROP, [None], ("sym",))
            add(2, totals, 2, LS[:1] if quick else LS, NO_NAN, [dev_of(totals), dev_of(totals, 1)], ("sym",))
        for totals in ([(1, 1, 4), (2, 2, 2), (1, 3, 2)] if quick else [c for c in compositions(6, 3)] + [(1, 4, 3), (2, 4, 2), (3, 2, 3)]):
            add(3, totals, 2, LS, NO_NAN, [None], (0.25, "sym"))
            add(3, totals, 3, LS, NO_NAN + NAN_KEEP, [None], (0.25, "sym"), ("cramerv",) if quick else ("cramerv", "tschuprowt"))
        for totals in ([(2, 2, 2)] if quick else [(1, 1, 4), (2, 2, 2), (1, 3, 2), (2, 1, 3)]):
            add(3, totals, 2, LS[:1] if quick else LS, NAN_DROP, [None], ("sym",))
            add(3, totals, 2, LS[:1] if quick else LS[:2], NO_NAN, [dev_of(totals), dev_of(totals, 2)], ("sym",))
        if not quick:
            for totals in [(2, 2, 2), (1, 3, 2)]:
                add(3, totals, 3, LS[:2], NAN_DROP, [None], (0.25, "sym"))
                add(3, totals, 3, LS[:1], NO_NAN, [dev_of(totals), dev_of(totals, 0)], ("sym",))
                add(3, totals, 2, LS[:1], NAN_DROP, [dev_of(totals)], ("sym",))
            for totals in [(2, 2, 2, 2), (1, 3, 1, 3)]:
                add(4, totals, 2, LS, NO_NAN + NAN_KEEP, [None], (0.25, "sym"))
                add(4, totals, 3, LS[:1], NO_NAN, [None], ("sym",))
    else:
        # real measure: cells are concrete (solver-chosen), no sort forks -> larger shapes are cheap
        for totals in ([(2, 3)] if quick else list(compositions(6, 2))):
            add(2, totals, 3, LS[:2], NO_NAN + NAN_KEEP + NAN_DROP, [None, dev_of(totals), dev_of(totals, 1)], (0.25, "sym"), ("cramerv", "tschuprowt"))
        for totals in ([(2, 2, 2), (1, 3, 2)] if quick else list(compositions(6, 3)) + [(2, 4, 2), (3, 2, 3)]):
            add(3, totals, 3, LS[:1] if quick else LS[:2], NO_NAN + NAN_DROP, [None], (0.25,) if quick else (0.25, "sym"), ("cramerv", "tschuprowt"))
            add(3, totals, 2, LS[:1], NO_NAN, [dev_of(totals)], (0.25,))
        if not quick:
            for totals in [(2, 2, 2, 2), (1, 3, 1, 3), (2, 1, 3, 2)]:
                add(4, totals, 3, LS[:1], NO_NAN + NAN_DROP, [None], (0.25, "sym"), ("cramerv", "tschuprowt"))
    return out


def obligation(tier, props, name, measure):
    quick = tier == "quick"
    return Obligation(
        name=name, harness=h_select, jobs=jobs(tier, props, measure), encodes=ENC,
        rebindings=["R4 binary_carver.zeros -> object zeros", "R5 base_carver.isclose -> exact formula (F3)"] + (["R6 _association_measure -> one fresh real >= 0 per distinct grouped table"] if measure == "abstract" else []),
        bounds=("abstract measure: " if measure == "abstract" else "real scipy measure, solver-chosen concrete cells: ") +
               f"k <= {3 if quick else 4} base modalities (+ NaN row), row totals concrete (selected compositions of N = 6..8), positives per row symbolic, "
               "max_n_mod in {2,3}, min_freq_mod 0.25 or any real in (0,0.5], dropna in {T,F}, with/without dev crosstab (incl. a modality absent from dev), three label sets",
        outside="k > 4 base modalities; totals beyond the sampled compositions; verbose printing",
        twin_every=6, abstract_ok=(measure == "abstract"), budget_s=5.0,
    )


# ============================================================================= ContinuousCarver selection logic (O1.4)
def h_select_cont(ctx, k, labelset, sizes, has_nan, nan_size, max_n_mod, mfm, dropna, props):
    try:
        return _h_select_cont(ctx, k, labelset, sizes, has_nan, nan_size, max_n_mod, mfm, dropna, props)
    except Violation as v:
        v.extra = dict(v.extra or {}, carver="continuous", nan=has_nan, dropna=dropna)
        raise


def _h_select_cont(ctx, k, labelset, sizes, has_nan, nan_size, max_n_mod, mfm, dropna, props):
    """The real _get_best_combination of a ContinuousCarver on a Series of y-lists whose elements are
    symbolic reals (list lengths concrete => frequencies concrete, means linear); Kruskal-Wallis is an
    abstract measure (one fresh real >= 0 per distinct grouping)."""
    from AutoCarver.carvers import continuous_carver as cm
    from AutoCarver.discretizers import GroupedList

    conc = getattr(ctx, "concrete", False)
    labels = LABELSETS[labelset][:k]
    all_labels = labels + ([NAN] if has_nan else [])
    all_sizes = list(sizes) + ([nan_size] if has_nan else [])
    # target values range over a small integer domain: sums and means are then exact in floating point and
    # distinct means differ by far more than isclose's tolerance (F3), so the real-arithmetic model is exact
    ylists = [[ctx.count(f"y{i}_{j}", -2, 2) for j in range(sz)] for i, sz in enumerate(all_sizes)]
    if mfm == "sym":
        mf = ctx.real("min_freq_mod")
        ctx.assume(mf > 0)
        ctx.assume(mf <= 0.5)
    else:
        mf = mfm
    c = cm.ContinuousCarver(min_freq=0.1, quantitative_features=["f"] if labelset == "quant" else None,
                            qualitative_features=["f"] if labelset != "quant" else None, max_n_mod=max_n_mod, min_freq_mod=mf, dropna=dropna, copy=True)
    c.values_orders = {"f": GroupedList(list(all_labels))}
    order = GroupedList(list(all_labels))
    yval = pd.Series([list(l) for l in ylists], index=all_labels, dtype=object)
    memo, stage = {}, {"cands": None, "stage1": None, "done2": False}

    real_measure = conc and getattr(ctx, "purpose", "replay") == "replay"  # counterexamples must replay with the real Kruskal-Wallis H

    def measure_symbol(key):
        if key not in memo:
            if real_measure:
                from scipy.stats import kruskal
                try:
                    memo[key] = float(kruskal(*[[v for i in g for v in ylists[i]] for g in key])[0])
                except ValueError:
                    memo[key] = float("nan")
                return memo[key]
            name = "meas_" + "|".join(",".join(str(i) for i in sorted(g)) for g in sorted(key, key=lambda g: min(g)))
            v = ctx.real(name)
            ctx.assume(v >= 0)
            memo[key] = v
        return memo[key]

    def abstract_measure(yv, **kwargs):
        # identify the grouping from the lists handed over (by identity of their elements)
        idx_of = {}
        for i, lst in enumerate(ylists):
            for v in lst:
                idx_of[id(v)] = i
        groups = []
        for lst in yv.values:
            members = set()
            for v in lst:
                i = idx_of.get(id(v))
                if i is None and conc:
                    continue
                members.add(i)
            groups.append(frozenset(members))
        if conc:  # concrete twin: floats carry no identity; the measure is requested once per combination, in order
            groups = [frozenset(g) for g in stage["queue"].pop(0)]
        key = frozenset(groups)
        # the lists handed to the measure are exactly the concatenated y-lists of the groups
        if not conc:
            for lst, g in zip(yv.values, groups):
                exp_n = sum(all_sizes[i] for i in g)
                ctx.require(len(lst) == exp_n, "C01.measured-table", f"measure received {len(lst)} target values for group {sorted(g)} holding {exp_n}")
        v = measure_symbol(key)
        return {"kruskal": v}

    if not real_measure:
        c._association_measure = abstract_measure

    orig_gba = c._get_best_association

    def gba_wrapper(feature, order_, xagg_, combinations, *, xagg_dev=None, dropna=False):
        if dropna:
            stage["done2"] = True
            stage["stage1"] = [sorted(labels.index(v) for v in order_.get(l)) for l in order_ if l != NAN]
        # index -> groups map for the concrete twin
        by_index = {}
        for comb in combinations:
            lead = tuple(dict.fromkeys(g[0] for g in comb))
            grp = []
            for g in comb:
                mem = []
                for lab in g:
                    if lab == NAN:
                        mem.append(k)
                    elif dropna:
                        mem += [i for s1 in stage["stage1"] if labels[s1[0]] == lab for i in s1]
                    else:
                        mem.append(labels.index(lab))
                grp.append(mem)
            by_index[lead] = grp
        stage["cands_by_index"] = by_index
        stage["queue"] = [by_index_list for by_index_list in _ordered_groups(combinations, labels, stage, k, dropna)]
        return orig_gba(feature, order_, xagg_, combinations, xagg_dev=xagg_dev, dropna=dropna)

    c._get_best_association = gba_wrapper
    with rebound(ctx, ["R5"] if not conc else []):
        try:
            res = c._get_best_combination("f", order, yval, xagg_dev=None)
        except Violation:
            raise
        except AssertionError as e:
            ctx.require(False, "C08.selection-assertion", f"ContinuousCarver._get_best_combination raised AssertionError: {str(e)[:200]}")
        except Exception as e:
            import traceback
            ctx.require(False, "C08.selection-internal-error", f"ContinuousCarver._get_best_combination raised {type(e).__name__}: {str(e)[:200]} | {traceback.format_exc(limit=-3)[-500:]}")

    # ---------------- specification
    def mean_of(members):
        vals = [v for i in members for v in ylists[i]]
        return sum(vals) / len(vals), len(vals)

    def close(a, b):  # numpy.isclose(a, b) with default tolerances
        d = a - b
        ad = d if isinstance(d, (int, float)) and d >= 0 else (-d if isinstance(d, (int, float)) else abs(d))
        ab = b if isinstance(b, (int, float)) and b >= 0 else (-b if isinstance(b, (int, float)) else abs(b))
        return ad <= 1e-08 + 1e-05 * ab

    def viability(members_list, total):
        must, may = [], []
        for mem in members_list:
            n_ = sum(all_sizes[i] for i in mem)
            must.append(n_ / total >= mf)
            may.append(n_ / total >= mf)
        means = [mean_of(mem)[0] for mem in members_list]
        nan_alone_last = len(members_list) > 1 and members_list[-1] == [k]
        for n_, (a, b) in enumerate(zip(means[1:], means[:-1])):  # isclose(rate[i], rate[i-1])
            must.append(snot(close(a, b)))
            if not (nan_alone_last and n_ == len(means) - 2):
                may.append(snot(eqv(a, b)))
        return sand(must), sand(may)

    nn_total = sum(sizes)
    full_total = nn_total + (nan_size if has_nan else 0)
    parts = spec_partitions(k, max_n_mod)
    stage1 = [(frozenset(frozenset(g) for g in p), p, viability(p, nn_total)) for p in parts]
    if res is None:
        if not stage["done2"]:
            ctx.require(snot(sor([v[0] for _, _, v in stage1])), "C01.dropped-although-viable", f"ContinuousCarver: nothing returned although a viable stage-1 grouping exists (sizes {sizes})")
            outcome = "none-stage1"
        else:
            g1 = stage["stage1"]
            st2 = []
            for q in spec_nan_placements(g1, max_n_mod):
                members = [[(k if it == NAN else None) for it in grp] for grp in q]
                members = [[i for it in grp for i in ([k] if it == NAN else g1[it])] for grp in q]
                st2.append((members, viability(order_members(members, k), full_total)))
            ctx.require(snot(sor([v[0] for _, v in st2])), "C01.dropped-although-viable", f"ContinuousCarver: nothing returned although a viable NaN placement exists (stage-1 {g1})")
            outcome = "none-stage2"
        return dict(counters={outcome: 1}, sample=dict(k=k, sizes=sizes, outcome=outcome), result=dict(outcome=outcome))
    new_order = res[0]
    got_groups = [[(k if v == NAN else labels.index(v)) for v in new_order.get(l)] for l in new_order]
    got_key = frozenset(frozenset(g) for g in got_groups)
    ctx.require(sorted(i for g in got_groups for i in g) == list(range(k + (1 if has_nan else 0))), "C08.partition", f"returned order is not a partition: {got_groups}")
    groups1 = stage["stage1"] if stage["done2"] else [sorted(i for i in g if i != k) for g in got_groups if any(i != k for i in g)]
    key1 = frozenset(frozenset(g) for g in groups1)
    e1 = [e for e in stage1 if e[0] == key1]
    ctx.require(len(e1) == 1, "C01.not-a-candidate", f"stage-1 grouping {groups1} is not a contiguous partition into 2..{max_n_mod} groups")
    ctx.require(e1[0][2][1], "C01.non-viable-accepted" if "C02" not in props else "C02.constraint-violated", f"ContinuousCarver: stage-1 grouping {groups1} is not viable (sizes {sizes})")
    m1 = measure_symbol(key1)
    for key, p, (must, may) in stage1:
        if key != key1:
            mo = measure_symbol(key)
            if isinstance(mo, float) and mo != mo:
                continue
            ctx.require(snot(sand([must, mo > m1])), "C01.not-optimal", f"ContinuousCarver: {groups1} chosen although {p} is viable and more associated")
    outcome = "stage1"
    if stage["done2"]:
        st2 = []
        for q in spec_nan_placements(groups1, max_n_mod):
            members = [[i for it in grp for i in ([k] if it == NAN else groups1[it])] for grp in q]
            st2.append((frozenset(frozenset(m_) for m_ in members), members, viability(order_members(members, k), full_total)))
        e2 = [e for e in st2 if e[0] == got_key]
        ctx.require(len(e2) >= 1, "C01.not-a-candidate", f"final grouping {got_groups} is not a NaN placement over {groups1}")
        ctx.require(len(got_groups) <= max_n_mod, "C02.too-many-groups", f"{len(got_groups)} groups > max_n_mod")
        ctx.require(e2[0][2][1], "C01.non-viable-accepted" if "C02" not in props else "C02.constraint-violated", f"ContinuousCarver: NaN placement {got_groups} is not viable")
        m2 = measure_symbol(got_key)
        for key, members, (must, may) in st2:
            if key != got_key:
                mo = measure_symbol(key)
                if isinstance(mo, float) and mo != mo:
                    continue
                ctx.require(snot(sand([must, mo > m2])), "C01.not-optimal", f"ContinuousCarver: NaN placement {got_groups} chosen although {members} is viable and more associated")
        outcome = "stage2"
    elif has_nan:
        ctx.require([k] in got_groups, "C02.nan-touched", f"dropna=False but NaN was merged: {got_groups}")
    if "C16" in props:
        check_history(ctx, c, labels, k, got_groups, groups1, "kruskal", stage["done2"], has_nan)
    return dict(counters={outcome: 1}, sample=dict(k=k, sizes=sizes, groups=got_groups, outcome=outcome), result=dict(groups=[sorted(g) for g in got_groups]),
                twin_distinct=[n for n in getattr(ctx, "symbols", {}) if n.startswith("meas_")])


def _ordered_groups(combinations, labels, stage, k, dropna):
    out = []
    for comb in combinations:
        grp = []
        for g in comb:
            mem = []
            for lab in g:
                if lab == NAN:
                    mem.append(k)
                elif dropna:
                    mem += [i for s1 in stage["stage1"] if labels[s1[0]] == lab for i in s1]
                else:
                    mem.append(labels.index(lab))
            grp.append(mem)
        out.append(grp)
    return out


def obligation_cont(tier, props, name):
    quick = tier == "quick"
    jobs = []
    shapes = [(2, (2, 2), 2), (3, (1, 2, 1), 3), (3, (2, 1, 2), 2)] if quick else [(2, (2, 2), 2), (2, (1, 3), 3), (3, (1, 2, 1), 3), (3, (2, 1, 2), 2), (3, (2, 2, 2), 3), (4, (1, 2, 1, 2), 2)]
    for k, sizes, mnm in shapes:
        for labelset in (("quant", "ord") if quick else ("quant", "ord", "alpha")):
            for has_nan, nan_size, dropna in ((False, 0, True), (True, 1, False)) + (((True, 1, True),) if (k == 2 or not quick) else ()):
                if has_nan and dropna and k >= 3 and mnm >= 3 and quick:
                    continue
                for mfm in ((0.25,) if k >= 3 else (0.25, "sym")):
                    jobs.append(dict(k=k, labelset=labelset, sizes=sizes, has_nan=has_nan, nan_size=nan_size, max_n_mod=mnm, mfm=mfm, dropna=dropna, props=sorted(props)))
    return Obligation(
        name=name, harness=h_select_cont, jobs=jobs,
        encodes=["BaseCarver._get_best_combination/_get_best_association/_test_viability/_historize_viability_test", "ContinuousCarver._grouper", "ContinuousCarver._printer",
                 "base_carver.consecutive_combinations/nan_combinations/order_apply_combination/xagg_apply_order/filter_nan"],
        rebindings=["R5 isclose -> formula on symbolic means", "R6 Kruskal-Wallis H -> one fresh real >= 0 per distinct grouping"],
        bounds=f"k <= {3 if quick else 4} modalities (+NaN), 1-3 target values per modality (symbolic, integer domain -2..2: exact float means, F3), max_n_mod 2-3, min_freq_mod 0.25 or symbolic",
        outside="dev samples for the continuous carver at kernel level (covered end to end by O1.5 only without dev)",
        twin_every=6, abstract_ok=True, budget_s=5.0,
    )
