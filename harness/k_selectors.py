"""Selector kernels (C14, C15): the real BaseSelector.select / _select_features / apply_measures /
feature_association / make_measure / evaluated_measure_names / apply_filters / thresh_filter /
quantitative_filter / qualitative_filter / qualitative_worst_corr run with symbolic association
values and symbolic inter-feature correlations.

R6: the association with the target comes from a user-supplied measure (public API:
quantitative_measures=[...]) returning one symbolic real per feature; R9: X is a DataFrame
subclass whose corr() returns a symbolic correlation matrix; the pairwise association used by the
qualitative filter (tschuprowt_measure in qualitative_filters) is rebound to a symmetric symbolic
table."""
from __future__ import annotations

import itertools

import numpy as np
import pandas as pd

from harness.common import contains, eqv
from symx import Obligation, Sym, Violation
from symx.rebind import rebound


class SymFrame(pd.DataFrame):
    _metadata = ["_symcorr"]

    @property
    def _constructor(self):
        def f(*a, **k):
            o = SymFrame(*a, **k)
            o._symcorr = getattr(self, "_symcorr", None)
            return o
        return f

    def corr(self, method="pearson", **kw):
        cols = list(self.columns)
        return self._symcorr.loc[cols, cols].copy()


def make_stub_measure(values, name="assoc_measure"):
    def assoc_measure(x, y, **kwargs):
        return True, {name: values[x.name]}
    assoc_measure.__name__ = name
    return assoc_measure


def sb(c):
    return bool(c) if isinstance(c, Sym) else c


def h_select(ctx, dtype, m, n_best, nan_idx, sym_thresh, n_rows=6):
    try:
        return _h_select(ctx, dtype, m, n_best, nan_idx, sym_thresh, n_rows)
    except Violation as v:
        v.extra = dict(v.extra or {}, dtype=dtype)
        raise


def _h_select(ctx, dtype, m, n_best, nan_idx, sym_thresh, n_rows=6):
    from AutoCarver.selectors import ClassificationSelector

    feats = [f"f{i}" for i in range(m)]
    n = n_rows  # 5 rows = as many rows as measurements per feature (dtype, pct_nan, pct_mode, mode, measure)
    meas = {}
    for i, f in enumerate(feats):
        if i in nan_idx:
            meas[f] = float("nan")
        else:
            v = ctx.real(f"m{i}")
            ctx.assume(v >= 0)
            meas[f] = v
    corr = {}
    C = [[1.0] * m for _ in range(m)]
    for i, j in itertools.combinations(range(m), 2):
        v = ctx.real(f"r{i}{j}")
        if dtype == "float":
            ctx.assume(v >= -1)
        else:
            ctx.assume(v >= 0)
        ctx.assume(v <= 1)
        C[i][j] = C[j][i] = v
        corr[(i, j)] = corr[(j, i)] = v
    if sym_thresh:
        th = ctx.real("thresh_corr")
        ctx.assume(th >= 0)
        ctx.assume(th <= 1)
    else:
        th = 0.5
    y = pd.Series([0, 1, 0, 1, 1, 0, 1][:n])
    if dtype == "float":
        data = {f: [float((k + 2 * i) % 5 + 0.5 * i) for k in range(n)] for i, f in enumerate(feats)}
        X = SymFrame(data)
        X._symcorr = pd.DataFrame(C, index=feats, columns=feats, dtype=object)
        sel = ClassificationSelector(n_best=n_best, quantitative_features=list(feats), quantitative_measures=[make_stub_measure(meas)], thresh_corr=th)
        extra = []
    else:
        data = {f: [str((k + i) % 3 + (1 if (i >= 3 and k == 0) else 0)) for k in range(n)] for i, f in enumerate(feats)}
        X = pd.DataFrame(data)

        def pair_measure(x, y_, **kwargs):
            i, j = feats.index(x.name), feats.index(y_.name)
            return True, {"tschuprowt_measure": corr[(i, j)]}
        pair_measure.__name__ = "tschuprowt_measure"
        sel = ClassificationSelector(n_best=n_best, qualitative_features=list(feats), qualitative_measures=[make_stub_measure(meas)], thresh_corr=th)
        extra = [("AutoCarver.selectors.filters.qualitative_filters", "tschuprowt_measure", pair_measure)]
    x_before = X.copy()
    if getattr(ctx, "concrete", False):
        # the concrete twin runs the same real code on floats (same stubs: the statistics are the symbols)
        extra_cm = extra
    with rebound(ctx, [], extra=extra) if not getattr(ctx, "concrete", False) else _plain(extra):
        try:
            out = sel.select(X, y)
        except Violation:
            raise
        except Exception as e:
            import traceback
            ctx.require(False, "C14.select-internal-error", f"select raised {type(e).__name__}: {str(e)[:150]} | {traceback.format_exc(limit=-3)[-500:]}")
    # ------------------------------------------------------------------ specification
    ctx.require(len(out) == len(set(out)) and all(f in feats for f in out), "C14.not-distinct-input-features", f"select returned {out}")
    ctx.require(len(out) <= n_best, "C14.more-than-n-best", f"{len(out)} features returned, n_best={n_best}")
    idx = {f: i for i, f in enumerate(feats)}
    for f in out:
        ctx.require(idx[f] not in nan_idx, "C14.undefined-measure-returned", f"{f} has an undefined measure but was returned")
    for a, b in zip(out, out[1:]):
        ctx.require(meas[a] >= meas[b], "C14.not-ordered-by-association", f"{a} returned before {b} although it is less associated")

    def acorr(f, g):
        v = corr[(idx[f], idx[g])]
        return abs(v) if dtype == "float" else v

    for a, b in itertools.combinations(out, 2):
        ctx.require(~(acorr(a, b) > th) if isinstance(acorr(a, b) > th, Sym) else not (acorr(a, b) > th), "C14.correlated-features-returned",
                    f"{a} and {b} are both returned although their association exceeds thresh_corr")
    for f in feats:
        if f in out or idx[f] in nan_idx:
            continue
        # allowed reasons: too associated with a better-ranked returned feature, or n_best better features returned
        reasons = []
        n_better = 0
        for g in out:
            better = meas[g] >= meas[f]
            reasons.append(better & (acorr(f, g) > th) if isinstance(better, Sym) or isinstance(acorr(f, g) > th, Sym) else (better and (acorr(f, g) > th)))
            n_better = n_better + (1 if sb(better) else 0)
        ok = n_better >= n_best
        for r in reasons:
            if isinstance(r, Sym):
                r = sb(r)
            ok = ok or r
        ctx.require(ok, "C14.feature-left-out-without-reason",
                    f"{f} is not returned although its measure is defined, it is not too associated with a better-ranked returned feature and fewer than n_best better features were returned (returned {out})")
    ctx.require(X.equals(x_before), "C14.input-modified", "select modified X")
    # ---- C15: permuting the columns of X (same statistics) does not change the selection, ties included
    X2 = X[feats[::-1]]
    if dtype == "float":
        X2._symcorr = X._symcorr
        sel2 = ClassificationSelector(n_best=n_best, quantitative_features=list(feats), quantitative_measures=[make_stub_measure(meas)], thresh_corr=th)
    else:
        sel2 = ClassificationSelector(n_best=n_best, qualitative_features=list(feats), qualitative_measures=[make_stub_measure(meas)], thresh_corr=th)
    with rebound(ctx, [], extra=extra) if not getattr(ctx, "concrete", False) else _plain(extra):
        out2 = sel2.select(X2, y)
    ctx.require(list(out2) == list(out), "C15.column-order-changes-selection", f"select returned {out}; with the columns of X reversed it returned {out2}", dict(transform="columns"))
    return dict(counters={"ok": 1}, sample=dict(dtype=dtype, m=m, n_best=n_best, nan=list(nan_idx), out=out), result=dict(out=list(out)),
                twin_distinct=[k for k in getattr(ctx, "symbols", {}) if k.startswith("m")])


class _plain:
    """rebinding that is also active in concrete mode (the stubbed statistics are the model's values)"""

    def __init__(self, items):
        self.items = items
        self.saved = []

    def __enter__(self):
        import importlib
        for modname, attr, new in self.items:
            mod = importlib.import_module(modname)
            self.saved.append((mod, attr, getattr(mod, attr)))
            setattr(mod, attr, new)

    def __exit__(self, *a):
        for mod, attr, old in reversed(self.saved):
            setattr(mod, attr, old)
        return False


def obligation_select(tier):
    quick = tier == "quick"
    jobs = []
    for dtype in ("float", "str"):
        for m in ([2, 3] if quick else [2, 3, 4]):
            for n_best in range(1, m + 1):
                for nan_idx in [()] + [(i,) for i in range(m)] if m <= 3 else [(), (0,), (m - 1,)]:
                    for sym_thresh in ((True,) if m >= 3 else (True, False)):
                        jobs.append(dict(dtype=dtype, m=m, n_best=n_best, nan_idx=nan_idx, sym_thresh=sym_thresh))
                    if m == 2 and nan_idx == ():
                        for n_rows in (5, 7):
                            jobs.append(dict(dtype=dtype, m=m, n_best=n_best, nan_idx=nan_idx, sym_thresh=True, n_rows=n_rows))
    return Obligation(
        name="O14.1-3 select: distinct features, ordered by decreasing measure, <= n_best, pairwise association <= thresh_corr, nothing left out without one of the allowed reasons (symbolic measures, correlations and threshold)",
        harness=h_select, jobs=jobs,
        encodes=["BaseSelector.select", "BaseSelector._select_features", "base_selector.apply_measures", "base_selector.feature_association", "base_measures.make_measure",
                 "base_selector.evaluated_measure_names", "base_selector.apply_filters", "base_filters.thresh_filter", "quantitative_filters.spearman_filter/quantitative_filter",
                 "qualitative_filters.tschuprowt_filter/qualitative_filter/qualitative_worst_corr", "base_measures.dtype_measure/nans_measure/mode_measure"],
        rebindings=["R6 association with the target = user-supplied measure returning one symbolic real per feature (public API)", "R9 X.corr() -> symbolic correlation matrix (DataFrame subclass)",
                    "R6 qualitative_filters.tschuprowt_measure -> symmetric symbolic pairwise association"],
        bounds=f"m <= {3 if quick else 4} features per type, n_best 1..m, one feature possibly with an undefined (NaN) measure, thresh_corr symbolic in [0,1] (or 0.5)",
        outside="colsample < 1 (random.shuffle); more than 4 features; the statistics themselves (obligation O14.4)",
        twin_every=5, budget_s=5.0,
    )


# ----------------------------------------------------------------------------- O14.4 statistics equal independent recomputation
def h_measures(ctx, kind, ypat):
    import math

    from scipy.stats import chi2_contingency, kruskal, spearmanr, pearsonr

    from AutoCarver.selectors import measures as M
    from AutoCarver.selectors.filters.quantitative_filters import pearson_filter, spearman_filter

    n = len(ypat)
    y = pd.Series(list(ypat))
    vals = [ctx.choose(f"x{i}", 3) for i in range(n)]
    if kind in ("cramerv", "tschuprowt"):
        # missing values in either argument (the inter-feature filters call measure(feature, better_feature)): pairwise-complete rows
        xs_ = [str(v) for v in vals]
        ys_ = [str(c) for c in ypat]
        nx, ny = ctx.choose("nan_x", n + 1), ctx.choose("nan_y", n + 1)
        if nx < n:
            xs_[nx] = np.nan
        if ny < n:
            ys_[ny] = np.nan
        x = pd.Series(xs_, name="f", dtype=object)
        y = pd.Series(ys_, dtype=object)
        keep = x.notna() & y.notna()
        xc, yc = x[keep], y[keep]
        if xc.nunique() < 2 or yc.nunique() < 2:
            from symx import Infeasible
            raise Infeasible()
        n = int(keep.sum())
        tab = pd.crosstab(xc, yc)
        chi2 = chi2_contingency(tab)[0]
        kx, ky = xc.nunique(), yc.nunique()
        if kind == "cramerv":
            exp = math.sqrt(chi2 / n / (min(kx, ky) - 1))
            got = M.cramerv_measure(x, y)[1]["cramerv_measure"]
        else:
            exp = math.sqrt(chi2 / n / math.sqrt((kx - 1) * (ky - 1)))
            got = M.tschuprowt_measure(x, y)[1]["tschuprowt_measure"]
        ctx.require(abs(got - exp) <= 1e-12, f"C14.measure-differs", f"{kind}_measure={got!r}, independent recomputation on pairwise-complete rows={exp!r} (x={xs_}, y={ys_})", dict(measure=kind))
        res = got
    elif kind == "kruskal":
        nan_pos = ctx.choose("nan_pos", n + 1)
        xf = [float(v) for v in vals]
        if nan_pos < n:
            xf[nan_pos] = float("nan")
        x = pd.Series(xf, name="f")
        groups = [[v for v, c in zip(xf, ypat) if c == cl and v == v] for cl in sorted(set(ypat))]
        try:
            exp = kruskal(*groups)[0]
        except ValueError:
            from symx import Infeasible
            raise Infeasible()
        try:
            got = M.kruskal_measure(x, y)[1]["kruskal_measure"]
        except ValueError:
            got = float("nan")
        ok = (got != got and exp != exp) or abs(got - exp) <= 1e-12
        ctx.require(ok, "C14.measure-differs", f"kruskal_measure={got!r}, independent recomputation on non-missing rows={exp!r} (x={xf}, y={list(ypat)})", dict(measure=kind))
        res = None if got != got else got
    else:  # spearman / pearson filters: recorded correlation equals scipy's
        x2 = [(2 * i + 1) % 3 for i in range(n)]
        x2[ctx.choose("wpos", n)] = ctx.choose("wval", 3)
        X = pd.DataFrame({"a": [float(v) + 0.25 * i for i, v in enumerate(vals)], "b": [float(v) + 0.5 * (i % 2) for i, v in enumerate(x2)]})
        if X["a"].nunique() < 2 or X["b"].nunique() < 2:
            from symx import Infeasible
            raise Infeasible()
        ranks = pd.DataFrame({"m_measure": [2.0, 1.0]}, index=["a", "b"])
        f = spearman_filter if kind == "spearman" else pearson_filter
        out = f(X, ranks, thresh_corr=1.0)
        got = out.loc["b", f"{kind}_filter"]
        exp = abs((spearmanr if kind == "spearman" else pearsonr)(X["a"], X["b"])[0])
        ctx.require(abs(got - exp) <= 1e-9, "C14.measure-differs", f"{kind}_filter value {got!r}, scipy {exp!r}", dict(measure=kind))
        res = float(got)
    return dict(counters={"ok": 1}, sample=dict(kind=kind, x=vals, y=list(ypat), value=res), result=dict(value=res))


def obligation_measures(tier):
    quick = tier == "quick"
    jobs = []
    ypats = [(0, 1, 0, 1, 1), (0, 0, 1, 1, 1)] + ([] if quick else [(0, 1, 2, 0, 1), (1, 1, 0, 1, 0)])
    for kind in ("cramerv", "tschuprowt", "kruskal", "spearman", "pearson"):
        for yp in ypats[: (1 if kind in ("spearman", "pearson") else None)]:
            jobs.append(dict(kind=kind, ypat=yp))
    if not quick:
        for kind in ("cramerv", "tschuprowt", "kruskal"):
            jobs.append(dict(kind=kind, ypat=(0, 1, 2, 0, 1, 2)))
    return Obligation(
        name="O14.4 Cramer's V, Tschuprow's T, Kruskal-Wallis H (missing rows removed) and the Spearman/Pearson filter values equal an independent recomputation with scipy on solver-chosen small samples",
        harness=h_measures, jobs=jobs, encodes=["qualitative_measures.chi2_measure/cramerv_measure/tschuprowt_measure", "quantitative_measures.kruskal_measure", "quantitative_filters.spearman_filter/pearson_filter"],
        bounds="5-6 rows, feature values solver-chosen in {0,1,2} per row, one optional missing row in each argument, binary and 3-class targets", outside="scipy's own correctness (trusted)", twin=False, budget_s=5.0,
    )


# ----------------------------------------------------------------------------- O14.6 lists of several association measures
def multi_measure_api_check():
    """API-level check: with a list of association measures every one must be evaluated and features
    must still be returned ('at most n_best per association measure')."""
    from AutoCarver.selectors import ClassificationSelector, chi2_measure, cramerv_measure, tschuprowt_measure, kruskal_measure, R_measure

    rng = np.random.default_rng(0)
    n = 200
    y = pd.Series(rng.integers(0, 2, n))
    Xq = pd.DataFrame({"a": np.where(rng.random(n) < 0.7, y, 1 - y).astype(str), "b": rng.integers(0, 3, n).astype(str), "c": np.where(rng.random(n) < 0.6, y, rng.integers(0, 2, n)).astype(str)})
    Xn = pd.DataFrame({"u": y + rng.normal(size=n), "v": rng.normal(size=n), "w": 0.5 * y + rng.normal(size=n)})
    findings = []
    single = ClassificationSelector(n_best=2, qualitative_features=list(Xq.columns), qualitative_measures=[tschuprowt_measure]).select(Xq, y)
    for ms in ([chi2_measure, cramerv_measure], [chi2_measure, tschuprowt_measure], [cramerv_measure, tschuprowt_measure]):
        try:
            got = ClassificationSelector(n_best=2, qualitative_features=list(Xq.columns), qualitative_measures=ms).select(Xq, y)
            if len(got) == 0 and len(single) > 0:
                findings.append(dict(measures=[m.__name__ for m in ms], outcome="nothing selected", single_measure_selection=single))
        except Exception as e:
            findings.append(dict(measures=[m.__name__ for m in ms], outcome=f"{type(e).__name__}: {str(e)[:80]}"))
    try:
        got = ClassificationSelector(n_best=2, qualitative_features=list(Xq.columns), qualitative_measures=[chi2_measure, cramerv_measure], thresh_chi2=1e9).select(Xq, y)
    except Exception as e:
        findings.append(dict(measures=["chi2_measure", "cramerv_measure"], thresh_chi2=1e9, outcome=f"{type(e).__name__}: {str(e)[:80]}"))
    return findings


def multi_measure_correlated_api():
    """API-level, real statistics: two measures that rank two correlated features differently."""
    from AutoCarver.selectors import ClassificationSelector, R_measure, kruskal_measure

    rng = np.random.default_rng(5)
    n = 40
    y = pd.Series(rng.integers(0, 2, n))
    a = y * 1.0 + rng.normal(size=n) * 1.0
    b = a + rng.normal(size=n) * 0.6
    b[rng.integers(0, n)] += 8 * (1 if rng.random() < .5 else -1)
    X = pd.DataFrame({"a": a, "b": b})
    rho = abs(X.corr("spearman").iloc[0, 1])
    out = ClassificationSelector(n_best=1, quantitative_features=["a", "b"], quantitative_measures=[kruskal_measure, R_measure], thresh_corr=0.6).select(X, y)
    return (len(out) == 2 and rho > 0.6), dict(selected=out, abs_spearman=round(float(rho), 4), thresh_corr=0.6, n_best=1)


def post_multi(tier):
    res = dict(name="O14.6 lists of several association measures: every listed measure is evaluated and features are returned (API-level, concrete)",
               ok=False, states=0, queries=0, solver_s=0.0, twin=0, violations=[], errors=[], samples=[])
    try:
        findings = multi_measure_api_check()
    except Exception as e:
        res["errors"].append(f"{type(e).__name__}: {e}")
        return res
    res["states"] = 4
    res["twin"] = 4
    res["samples"] = findings[:3] or [dict(note="all measure lists selected features")]
    for f in findings:
        kind = "C14.measure-list-selects-nothing" if f["outcome"] == "nothing selected" else "C14.measure-list-crashes"
        res["violations"].append(dict(ob=res["name"], kind=kind, reproduced=True, message=f"qualitative_measures={f['measures']}: {f['outcome']} {('(thresh_chi2=%s)' % f['thresh_chi2']) if 'thresh_chi2' in f else ''}",
                                      model=f, raw_model={k: repr(v) for k, v in f.items()}, job=dict(obligation="O14.6"), extra=dict(first_measure=f["measures"][0])))
    try:
        bad, detail = multi_measure_correlated_api()
        res["states"] += 1
        res["twin"] += 1
        res["samples"].append(detail)
        if bad:
            res["violations"].append(dict(ob=res["name"], kind="C14.correlated-features-returned", reproduced=True,
                                          message=f"real data, two measures: {detail}", model=detail, raw_model={k: repr(v) for k, v in detail.items()},
                                          job=dict(obligation="O14.6"), extra=dict(measures=2)))
    except Exception as e:
        res["errors"].append(f"{type(e).__name__}: {e}")
    res["ok"] = not res["violations"] and not res["errors"]
    return res


# ----------------------------------------------------------------------------- C15 O15.1: negation / exact copy with symbolic target correlations
def h_regression_relational(ctx, m, n_best, copy_idx):
    """RegressionSelector with its DEFAULT measures/filters.  scipy's correlation distance is stubbed by
    its mathematical contract on symbolic Pearson correlations r_i with the target:
    correlation(x_i, y) = 1 - r_i and correlation(-x_i, y) = 1 + r_i; the Spearman correlation between
    features flips sign with each negated feature (its absolute value is what the filter uses)."""
    from AutoCarver.selectors import RegressionSelector

    feats = [f"f{i}" for i in range(m)]
    conc = getattr(ctx, "concrete", False)
    r = {}
    for i, f in enumerate(feats):
        if i == copy_idx:
            r[f] = 1  # exact copy of (or perfectly linear in) the target
        else:
            v = ctx.real(f"r{i}")
            ctx.assume(v >= -1)
            ctx.assume(v <= 1)
            r[f] = v
    C = [[1.0] * m for _ in range(m)]
    for i, j in itertools.combinations(range(m), 2):
        v = ctx.real(f"c{i}{j}")
        ctx.assume(v >= -1)
        ctx.assume(v <= 1)
        C[i][j] = C[j][i] = v
    neg = [bool(ctx.choose(f"neg{i}", 2)) if i != copy_idx else False for i in range(m)]
    n = 6
    y = pd.Series([0.5, 1.5, 0.7, 2.2, 1.1, 3.0])
    data = {f: [float((k + 2 * i) % 5 + 0.5 * i) for k in range(n)] for i, f in enumerate(feats)}

    def run(negated):
        sign = {f: (-1 if negated and neg[i] else 1) for i, f in enumerate(feats)}
        X = SymFrame({f: [sign[f] * v for v in data[f]] for f in feats})
        Cs = [[(C[i][j] * sign[feats[i]] * sign[feats[j]]) if i != j else 1.0 for j in range(m)] for i in range(m)]
        X._symcorr = pd.DataFrame(Cs, index=feats, columns=feats, dtype=object)

        def correlation_stub(u, v):
            return 1 - sign[u.name] * r[u.name]
        sel = RegressionSelector(n_best=n_best, quantitative_features=list(feats), thresh_corr=0.9)
        with _plain([("AutoCarver.selectors.measures.quantitative_measures", "correlation", correlation_stub)]):
            return sel.select(X, y)

    try:
        a = run(False)
        b = run(True)
    except Violation:
        raise
    except Exception as e:
        import traceback
        ctx.require(False, "C14.select-internal-error", f"RegressionSelector.select raised {type(e).__name__}: {str(e)[:150]} | {traceback.format_exc(limit=-3)[-400:]}")
    if copy_idx is not None and n_best >= m:
        ctx.require(feats[copy_idx] in a, "C15.exact-copy-not-selected", f"feature {feats[copy_idx]} is an exact copy of the target (r=1) but select returned {a}", dict(default_measure="distance_measure", relation="exact copy"))
    if any(neg):
        ctx.require(a == b, "C15.negation-changes-selection", f"select returned {a}; after negating {[f for f, s in zip(feats, neg) if s]} it returned {b}", dict(default_measure="distance_measure", relation="negation"))
    return dict(counters={"ok": 1}, sample=dict(m=m, n_best=n_best, neg=neg, a=a, b=b), result=dict(a=a, b=b), twin_distinct=[k for k in getattr(ctx, "symbols", {}) if k.startswith("r")])


def realise_correlations(rs, n=60, seed=0):
    """Concrete data (y, X) whose Pearson correlations with y are exactly rs (orthonormal construction)."""
    rng = np.random.default_rng(seed)
    m = len(rs)
    Z = rng.normal(size=(n, m + 1))
    Z -= Z.mean(axis=0)
    Q, _ = np.linalg.qr(Z)
    yv = Q[:, 0]
    cols = {}
    for i, r in enumerate(rs):
        r = float(r)
        cols[f"f{i}"] = r * yv + np.sqrt(max(0.0, 1 - r * r)) * Q[:, i + 1]
    return pd.DataFrame(cols), pd.Series(yv)


def api_regression_witness(kind):
    """API-level replay on real data with the real scipy statistics."""
    from AutoCarver.selectors import RegressionSelector

    if kind == "negation":
        X, y = realise_correlations([0.9, -0.5, 0.1])
        a = RegressionSelector(n_best=1, quantitative_features=list(X.columns)).select(X, y)
        X2 = X.copy()
        X2["f0"] = -X2["f0"]
        X2["f1"] = -X2["f1"]
        b = RegressionSelector(n_best=1, quantitative_features=list(X.columns)).select(X2, y)
        return a != b, dict(original=a, negated_f0_f1=b, correlations=[0.9, -0.5, 0.1])
    X, y = realise_correlations([0.3, 0.2])
    X["copy"] = y.values
    a = RegressionSelector(n_best=3, quantitative_features=list(X.columns)).select(X, y)
    return "copy" not in a, dict(selected=a)


def post_regression_api(tier):
    out = []
    for kind, k in (("negation", "C15.negation-changes-selection"), ("exact copy", "C15.exact-copy-not-selected")):
        res = dict(name=f"O15.1-api RegressionSelector default measures on real data ({kind}): API-level confirmation with scipy's real statistics", ok=False, states=1, queries=0,
                   solver_s=0.0, twin=1, violations=[], errors=[], samples=[])
        try:
            bad, detail = api_regression_witness("negation" if kind == "negation" else "copy")
            res["samples"].append(detail)
            if bad:
                res["violations"].append(dict(ob=res["name"], kind=k, reproduced=True, message=f"real data: {detail}", model=detail, raw_model={a: repr(b) for a, b in detail.items()},
                                              job=dict(obligation="O15.1-api"), extra=dict(default_measure="distance_measure", relation=kind)))
        except Exception as e:
            res["errors"].append(f"{type(e).__name__}: {e}")
        res["ok"] = not res["violations"] and not res["errors"]
        out.append(res)
    return out


# ----------------------------------------------------------------------------- C15 O15.2: metamorphic API runs with solver-chosen re-encodings
def h_metamorphic(ctx, selector, seed):
    from AutoCarver.selectors import ClassificationSelector, RegressionSelector, kruskal_measure

    rng = np.random.default_rng(seed)
    n = 80
    if selector == "classification":
        y = pd.Series(rng.integers(0, 2, n))
        base = y.values.astype(float)
    else:
        y = pd.Series(rng.normal(size=n))
        base = y.values
    quanti = {f"q{i}": base * w + rng.normal(size=n) for i, w in enumerate([1.5, 0.8, 0.3, 0.0])}
    quanti["q4"] = quanti["q0"] * 0.9 + rng.normal(size=n) * 0.2   # correlated cluster
    cats = {}
    for i, w in enumerate([0.8, 0.5, 0.1]):
        v = (base > np.median(base)).astype(int)
        flip = rng.random(n) > w
        v = np.where(flip, rng.integers(0, 3, n), v)
        cats[f"c{i}"] = np.array(["lvl%d" % t for t in v])
    X = pd.DataFrame({**quanti, **cats})
    qn, cn = list(quanti), list(cats)
    kw = dict(n_best=3, quantitative_features=qn, qualitative_features=cn)
    if selector == "classification":
        mk = lambda: ClassificationSelector(**kw)
    elif selector == "regression_kruskal_free":
        mk = lambda: RegressionSelector(**kw)
    else:
        mk = lambda: RegressionSelector(**kw)
    a = mk().select(X, y)
    # solver-chosen re-encoding
    t = ["scale", "rename", "rows", "columns"] + (["negate"] if selector == "classification" else [])
    kind = t[ctx.choose("transform", len(t))]
    X2, y2 = X.copy(), y.copy()
    which = qn[ctx.choose("feature", len(qn))]
    if kind == "scale":
        X2[which] = X2[which] * [0.5, 4.0, 1024.0, 2.0**-40, 2.0**40][ctx.choose("factor", 5)]  # powers of two: the rescaling itself is exact
    elif kind == "negate":
        X2[which] = -X2[which]
    elif kind == "rename":
        c = cn[ctx.choose("cat", len(cn))]
        X2[c] = X2[c].map({"lvl0": "A", "lvl1": "B", "lvl2": "C"})
    elif kind == "rows":
        perm = np.random.default_rng(ctx.choose("perm_seed", 3)).permutation(n)
        X2 = X2.iloc[perm].reset_index(drop=True)
        y2 = y2.iloc[perm].reset_index(drop=True)
    else:
        cols = list(X2.columns)
        rot = 1 + ctx.choose("rot", 3)
        X2 = X2[cols[rot:] + cols[:rot]]
    b = mk().select(X2, y2)
    ctx.require(a == b, "C15.reencoding-changes-selection", f"{selector}: select returned {a}; after {kind} of {which if kind in ('scale', 'negate') else ''} it returned {b}", dict(selector=selector, transform=kind))
    return dict(counters={"ok": 1}, sample=dict(selector=selector, transform=kind, selected=a), result=dict(a=a))


def obligations_c15(tier):
    quick = tier == "quick"
    rel = []
    for m in ([2, 3] if quick else [2, 3, 4]):
        for n_best in sorted({1, m}):
            for copy_idx in (None, 0):
                rel.append(dict(m=m, n_best=n_best, copy_idx=copy_idx))
    meta = [dict(selector=s, seed=sd) for s in ("classification", "regression") for sd in ((0, 1) if quick else (0, 1, 2, 3))]
    return [
        Obligation(name="O15.4 ClassificationSelector (defaults) on real data: a quantitative feature that is an exact copy / strictly monotone image of the target and a qualitative renaming of the target are always selected",
                   harness=h_copy_classification, jobs=[dict(seed=sd) for sd in ((0, 1) if quick else (0, 1, 2, 3))],
                   encodes=["ClassificationSelector", "kruskal_measure", "tschuprowt_measure", "spearman_filter", "tschuprowt_filter"],
                   bounds="60-row samples, binary or 3-class target, image in {x, 3x+1, -2x, exp(x)}, n_best in 1..3 (all solver-chosen)", twin=False, budget_s=6.0),
        Obligation(name="O15.1 RegressionSelector (default measures/filters): same selection after negating any subset of features; an exact copy of the target is selected (symbolic target correlations, scipy's distance stubbed by its contract)",
                   harness=h_regression_relational, jobs=rel,
                   encodes=["RegressionSelector.__init__", "BaseSelector.select/_select_features", "quantitative_measures.distance_measure", "quantitative_filters.spearman_filter/quantitative_filter", "base_filters.thresh_filter"],
                   rebindings=["R6 scipy.spatial.distance.correlation -> 1 - r_i (resp. 1 + r_i after negation) on symbolic r_i", "R9 X.corr() -> symbolic matrix with sign flips"],
                   bounds=f"m <= {3 if quick else 4} features, n_best in {{1, m}}, any subset negated, any correlations in [-1,1], thresh_corr=0.9", twin_every=3, budget_s=5.0),
        Obligation(name="O15.2 both selectors on real data with the real statistics: a solver-chosen re-encoding (positive rescaling, negation for rank-based measures, category renaming, row permutation, column rotation) leaves the selection unchanged",
                   harness=h_metamorphic, jobs=meta, encodes=["ClassificationSelector", "RegressionSelector", "kruskal_measure", "tschuprowt_measure", "spearman_filter", "tschuprowt_filter"],
                   bounds="80-row samples from 2-4 seeds; 5 quantitative (one correlated pair) and 3 qualitative features; transformation, feature and factor (2^-40 .. 2^40) solver-chosen", twin=False, budget_s=8.0),
    ]


# ----------------------------------------------------------------------------- several association measures
def h_select_multi(ctx, dtype, m, n_best):
    """Two association measures (symbolic values per feature and measure): 'at most n_best per association
    measure'; the result is the union of the per-measure selections, ordered by the last measure."""
    from AutoCarver.selectors import ClassificationSelector

    feats = [f"f{i}" for i in range(m)]
    n = 6
    m1 = {f: ctx.real(f"a{i}") for i, f in enumerate(feats)}
    m2 = {f: ctx.real(f"b{i}") for i, f in enumerate(feats)}
    for v in list(m1.values()) + list(m2.values()):
        ctx.assume(v >= 0)
    corr = {}
    C = [[1.0] * m for _ in range(m)]
    for i, j in itertools.combinations(range(m), 2):
        v = ctx.real(f"r{i}{j}")
        ctx.assume(v >= 0)
        ctx.assume(v <= 1)
        C[i][j] = C[j][i] = v
        corr[(i, j)] = corr[(j, i)] = v
    th = ctx.real("thresh_corr")
    ctx.assume(th >= 0)
    ctx.assume(th <= 1)
    y = pd.Series([0, 1, 0, 1, 1, 0])
    s1, s2 = make_stub_measure(m1, "first_measure"), make_stub_measure(m2, "second_measure")
    if dtype == "float":
        X = SymFrame({f: [float((k + 2 * i) % 5 + 0.5 * i) for k in range(n)] for i, f in enumerate(feats)})
        X._symcorr = pd.DataFrame(C, index=feats, columns=feats, dtype=object)
        sel = ClassificationSelector(n_best=n_best, quantitative_features=list(feats), quantitative_measures=[s1, s2], thresh_corr=th)
        extra = []
    else:
        X = pd.DataFrame({f: [str((k + i) % 3 + (1 if (i >= 3 and k == 0) else 0)) for k in range(n)] for i, f in enumerate(feats)})

        def pair_measure(x, y_, **kwargs):
            return True, {"tschuprowt_measure": corr[(feats.index(x.name), feats.index(y_.name))]}
        pair_measure.__name__ = "tschuprowt_measure"
        sel = ClassificationSelector(n_best=n_best, qualitative_features=list(feats), qualitative_measures=[s1, s2], thresh_corr=th)
        extra = [("AutoCarver.selectors.filters.qualitative_filters", "tschuprowt_measure", pair_measure)]
    with rebound(ctx, [], extra=extra) if not getattr(ctx, "concrete", False) else _plain(extra):
        try:
            out = sel.select(X, y)
        except Violation:
            raise
        except Exception as e:
            import traceback
            ctx.require(False, "C14.select-internal-error", f"select with two measures raised {type(e).__name__}: {str(e)[:150]} | {traceback.format_exc(limit=-3)[-400:]}")
    idx = {f: i for i, f in enumerate(feats)}
    ctx.require(len(out) == len(set(out)) and all(f in feats for f in out), "C14.not-distinct-input-features", f"select returned {out}")
    ctx.require(len(out) <= 2 * n_best, "C14.more-than-n-best", f"{len(out)} features returned for 2 measures, n_best={n_best}")

    # reference: greedy filter per measure on the ranking by that measure, first n_best, union
    def ranking(meas):
        order = []
        for f in feats:
            pos = 0
            while pos < len(order) and sb(meas[order[pos]] > meas[f]):
                pos += 1
            # ties: remember that the order is ambiguous
            if pos < len(order) and sb(eqv(meas[order[pos]], meas[f])):
                return None
            order.insert(pos, f)
        return order

    def greedy(order):
        kept = []
        for f in order:
            if all(not sb(corr[(idx[f], idx[g])] > th) for g in kept):
                kept.append(f)
        return kept[:n_best]

    r1, r2 = ranking(m1), ranking(m2)
    if r1 is not None and r2 is not None:
        exp = set(greedy(r1)) | set(greedy(r2))
        ctx.require(set(out) == exp, "C14.not-union-of-per-measure-selections", f"select returned {out}; per-measure greedy selections give {sorted(exp)} (rankings {r1} / {r2})")
        for a, b in zip(out, out[1:]):
            ctx.require(sb(m2[a] >= m2[b]), "C14.not-ordered-by-association", f"{a} returned before {b} although it is less associated by the last measure")
    # the property statement itself: no two returned features associated above thresh_corr
    for a, b in itertools.combinations(out, 2):
        c = corr[(idx[a], idx[b])] > th
        ctx.require(~c if isinstance(c, Sym) else not c, "C14.correlated-features-returned", f"{a} and {b} are both returned (selected through different measures) although their association exceeds thresh_corr",
                    dict(measures=2))
    return dict(counters={"ok": 1}, sample=dict(dtype=dtype, m=m, n_best=n_best, out=out), result=dict(out=list(out)),
                twin_distinct=[k for k in getattr(ctx, "symbols", {}) if k[0] in "ab" and k[1:].isdigit()])


def obligation_select_multi(tier):
    quick = tier == "quick"
    jobs = [dict(dtype=d, m=m, n_best=nb) for d in ("float", "str") for m in ([2] if quick else [2, 3]) for nb in range(1, m + 1)]
    return Obligation(
        name="O14.7 two association measures: result = union of the per-measure greedy selections (<= n_best each), ordered by the last measure; pairwise association of returned features <= thresh_corr",
        harness=h_select_multi, jobs=jobs, encodes=["BaseSelector._select_features (per-measure loop, union)", "base_selector.evaluated_measure_names", "base_measures.make_measure"],
        rebindings=["R6 two user-supplied measures returning symbolic values", "R9 symbolic correlation matrix"],
        bounds=f"m <= {2 if quick else 3} features, n_best 1..m, symbolic measures, correlations and thresh_corr", twin_every=5, budget_s=5.0,
    )


# ----------------------------------------------------------------------------- C15: exact copy / monotone image of a classification target
def h_copy_classification(ctx, seed):
    from AutoCarver.selectors import ClassificationSelector

    rng = np.random.default_rng(seed)
    n = 60
    k = 2 + ctx.choose("n_classes", 2)
    y = pd.Series(rng.integers(0, k, n))
    image = ctx.choose("image", 4)
    fx = [lambda v: v * 1.0, lambda v: 3.0 * v + 1.0, lambda v: -2.0 * v, lambda v: np.exp(v)][image]
    X = pd.DataFrame({
        "copy": fx(y.values.astype(float)),
        "strong": y.values + rng.normal(size=n) * 0.7,
        "weak": y.values * 0.2 + rng.normal(size=n),
        "noise": rng.normal(size=n),
        "qcopy": np.array(["cls%d" % v for v in y.values]),
        "qnoise": np.array(["lvl%d" % v for v in rng.integers(0, 3, n)]),
    })
    n_best = 1 + ctx.choose("n_best", 3)
    out = ClassificationSelector(n_best=n_best, quantitative_features=["copy", "strong", "weak", "noise"], qualitative_features=["qcopy", "qnoise"]).select(X, y)
    ctx.require("copy" in out, "C15.exact-copy-not-selected", f"quantitative feature that is a strictly monotone image (#{image}) of the {k}-class target is not selected: {out} (n_best={n_best})",
                dict(selector="classification", dtype="float"))
    ctx.require("qcopy" in out, "C15.exact-copy-not-selected", f"qualitative feature that is a renaming of the {k}-class target is not selected: {out} (n_best={n_best})",
                dict(selector="classification", dtype="str"))
    return dict(counters={"ok": 1}, sample=dict(k=k, image=image, n_best=n_best, out=out), result=dict(out=out))
