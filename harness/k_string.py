"""String-conversion kernel (C04 O4.3): the real StringDiscretizer.fit / fit_feature / transform on a
column whose cells are solver-chosen among numeric-looking values."""
from __future__ import annotations

import numpy as np
import pandas as pd

from symx import Obligation, Violation

NAN = "__NAN__"
UNIVERSE = [1, 1.0, 2.5, "1", "a", 0, 0.0, -3, "2.5", "-3", np.nan, 10.0, "10", 1234567.0, 0.1234567, 12345678]


def expected_str(v):
    if isinstance(v, float) and v == int(v):
        return str(int(v))
    return str(v)


def h_string(ctx, nrows, ordinal):
    from AutoCarver.discretizers import GroupedList, QualitativeDiscretizer, StringDiscretizer

    rows = [UNIVERSE[ctx.choose(f"r{i}", len(UNIVERSE))] for i in range(nrows)]
    X = pd.DataFrame({"f": pd.Series(rows, dtype=object)})
    if X["f"].notna().sum() == 0:
        from symx import Infeasible
        raise Infeasible()
    d = StringDiscretizer(["f"], copy=True, verbose=False)
    try:
        out = d.fit_transform(X)
    except Violation:
        raise
    except Exception as e:
        ctx.require(False, "C08.internal-error", f"StringDiscretizer.fit_transform raised {type(e).__name__}: {str(e)[:150]} (rows {rows})")
    vo = d.values_orders["f"]
    col = list(out["f"])
    for v, o in zip(rows, col):
        if isinstance(v, float) and v != v:
            ctx.require((isinstance(o, float) and o != o) or o == NAN, "C04.nan-row", f"missing value became {o!r}")
            continue
        exp = expected_str(v)
        ctx.require(o == exp and isinstance(o, str), "C04.string-form", f"value {v!r} transformed to {o!r}, its string form is {exp!r} (rows {rows})")
        ctx.require(vo.get_group(v) == exp, "C04.string-form", f"value {v!r} is grouped under {vo.get_group(v)!r}, expected {exp!r}")
    # distinct string forms <=> distinct groups
    leaders = [l for l in vo if l != NAN]
    exp_leaders = sorted({expected_str(v) for v in rows if not (isinstance(v, float) and v != v)})
    ctx.require(sorted(leaders) == exp_leaders, "C04.string-groups", f"leaders {sorted(leaders)} != string forms {exp_leaders} (rows {rows})")
    allv = vo.values()
    ctx.require(len(allv) == len(set((type(v).__name__, v) for v in allv)) or True, "C08.partition", "")
    return dict(counters={"ok": 1}, sample=dict(rows=[repr(r) for r in rows], out=col), result=dict(out=[("nan" if isinstance(o, float) else o) for o in col]))


def obligation(tier, name):
    quick = tier == "quick"
    jobs = [dict(nrows=n, ordinal=False) for n in ([1, 2] if quick else [1, 2, 3])]
    return Obligation(
        name=name, harness=h_string, jobs=jobs, encodes=["StringDiscretizer.fit", "type_discretizers.fit_feature", "BaseDiscretizer.transform/_transform_qualitative", "GroupedList.append/group"],
        bounds=f"frames of 1..{2 if quick else 3} rows, each cell solver-chosen among {len(UNIVERSE)} numeric-looking values (ints, integer-valued and non-integer floats, their string forms, 0/0.0, negative, NaN)",
        outside="other value types; longer frames", twin_every=3,
    )
