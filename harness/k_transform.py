"""Transform kernel (shared by C03, C04, C05, C16, C17): a quantitative feature with symbolic
boundaries, every contiguous grouping applied through the real convert_to_labels /
GroupedList.group_list / convert_to_values, a real BaseDiscretizer fitted on it and a symbolic
probe frame transformed by the real transform pipeline."""
from __future__ import annotations

import itertools

import numpy as np
import pandas as pd

from harness.common import cells_same, contains, eqv, neq
from symx import Obligation, Violation
from symx.rebind import rebound

NAN = "__NAN__"
ENC = [
    "base_discretizers.convert_to_labels", "base_discretizers.convert_to_values", "base_discretizers.get_quantiles_labels",
    "base_discretizers.get_labels", "base_discretizers.format_quantiles", "GroupedList.group_list", "GroupedList.get_group",
    "BaseDiscretizer.__init__", "BaseDiscretizer.fit", "BaseDiscretizer._get_labels_per_values", "BaseDiscretizer.transform",
    "BaseDiscretizer._prepare_data", "BaseDiscretizer._transform_quantitative", "base_discretizers.transform_quantitative_feature",
    "BaseDiscretizer.summary",
]


def contiguous_groupings(n):
    """All cut vectors over n items -> list of lists of indices."""
    out = []
    for cuts in itertools.product([0, 1], repeat=max(n - 1, 0)):
        groups, cur = [], [0]
        for c, i in zip(cuts, range(1, n)):
            if c:
                groups.append(cur)
                cur = [i]
            else:
                cur.append(i)
        groups.append(cur)
        out.append(groups)
    return out


def column(ctx, values):
    """A feature column: object dtype holding proxies (symbolic) or float64 (concrete twin)."""
    if getattr(ctx, "concrete", False) and all(isinstance(v, (int, float)) for v in values):
        return pd.Series([float(v) for v in values], dtype=float)
    return pd.Series(list(values), dtype=object)


def build_fitted(ctx, m, grouping, nan_mode, output_dtype, dropna):
    """Returns (discretizer, spec) where spec = list of (leader, [boundaries]) in order, nan_group index or None."""
    import AutoCarver.discretizers.utils.base_discretizers as bd
    from AutoCarver.discretizers import GroupedList

    bs = [ctx.real(f"b{i}", feature_value=True) for i in range(m - 1)]
    for a, b in zip(bs, bs[1:]):
        ctx.assume(a < b)
    quantiles = bs + [float("inf")]
    order = GroupedList(list(quantiles))
    has_nan = nan_mode != "none"
    if has_nan:
        order.append(NAN)
    vo = {"f": order}
    labels_orders = bd.convert_to_labels(["f"], ["f"], vo, NAN, dropna=False)
    labels = [l for l in labels_orders["f"] if l != NAN]
    ctx.require(len(labels) == m, "C08.labels", f"convert_to_labels produced {len(labels)} labels for {m} boundaries")
    new_order = GroupedList(labels_orders["f"])
    for g in grouping:
        new_order.group_list([labels[i] for i in g], labels[g[0]])
    nan_group = None
    if has_nan and nan_mode != "alone":
        nan_group = int(nan_mode)
        new_order.group(NAN, labels[grouping[nan_group][0]])
    vo = bd.convert_to_values(["f"], ["f"], vo, {"f": new_order}, NAN)
    d = bd.BaseDiscretizer(["f"], values_orders=vo, input_dtypes="float", output_dtype=output_dtype, str_nan=NAN,
                           dropna=dropna, copy=True, verbose=False)
    d.fit()
    spec = [(quantiles[g[-1]], [quantiles[i] for i in g]) for g in grouping]
    return d, spec, nan_group, has_nan, quantiles


def h_transform(ctx, m, gi, nan_mode, output_dtype, dropna, probe, props):
    try:
        return _h_transform(ctx, m, gi, nan_mode, output_dtype, dropna, probe, props)
    except Violation as v:
        v.extra = dict(v.extra or {}, output_dtype=output_dtype)
        raise


def _h_transform(ctx, m, gi, nan_mode, output_dtype, dropna, probe, props):
    import AutoCarver.discretizers.utils.base_discretizers as bd

    grouping = contiguous_groupings(m)[gi]
    with rebound(ctx, ["R1"]):
        try:
            d, spec, nan_group, has_nan, quantiles = build_fitted(ctx, m, grouping, nan_mode, output_dtype, dropna)
        except Violation:
            raise
        except AssertionError as e:
            ctx.require(False, "C08.fit-internal", f"building a fitted discretizer from a valid grouping raised AssertionError: {e}")
        except Exception as e:
            ctx.require(False, "C08.fit-internal", f"building a fitted discretizer raised {type(e).__name__}: {e}")
        vo = d.values_orders["f"]
        leaders = [v for v in vo if not (isinstance(v, str) and v == NAN)]
        g = len(grouping)
        # ---- C03/C08: leaders are the largest boundary of each group, in order; partition well formed
        if "C03" in props or "C08" in props or "C04" in props:
            ctx.require(len(leaders) == g, "C08.partition", f"{len(leaders)} leaders for {g} groups: {leaders!r}")
            for (lead, members), got in zip(spec, leaders):
                ctx.require(eqv(got, lead), "C03.leader-not-max", f"group leader {got!r} is not the largest boundary {lead!r} of its group")
                content = [v for v in vo.content[got] if not (isinstance(v, str) and v == NAN)]
                ctx.require(len(content) == len(members), "C08.partition", f"group of {got!r} holds {content!r}, expected {members!r}")
                for mem in members:
                    ctx.require(contains(content, mem), "C08.partition", f"boundary {mem!r} missing from its group {content!r}")
            allv = vo.values()
            for a, b in itertools.combinations(allv, 2):
                ctx.require(neq(a, b), "C08.partition", f"value {a!r} in two groups")
        # ---- labels
        lpv = d.labels_per_values["f"]
        group_labels = [lpv[lead] for lead, _ in spec]
        nan_label = lpv[NAN] if has_nan else None
        fitted_labels = list(group_labels) + ([nan_label] if has_nan and nan_group is None else [])
        if "C04" in props:
            if output_dtype == "float":
                for r, lab in enumerate(group_labels):
                    ctx.require(eqv(lab, r), "C04.float-label-not-rank", f"label of group {r} is {lab!r}")
                if has_nan and nan_group is None:
                    ctx.require(eqv(nan_label, g), "C04.float-label-not-rank", f"label of NaN group is {nan_label!r}, expected {g}")
            for a, b in itertools.combinations(fitted_labels, 2):
                ctx.require(neq(a, b), "C04.label-collision", f"two groups share the label {a!r}")
            if has_nan and nan_group is not None:
                ctx.require(eqv(nan_label, group_labels[nan_group]), "C04.nan-label", "NaN does not carry its group's label")
            for (lead, members), lab in zip(spec, group_labels):
                for mem in members:
                    ctx.require(eqv(lpv[mem], lab), "C04.member-label", f"boundary {mem!r} labelled {lpv[mem]!r}, group label {lab!r}")
        # ---- probe frame
        if probe == "2":
            x1 = ctx.real("x1", feature_value=True)
            x2 = ctx.real("x2", feature_value=True)
            ctx.assume(x1 <= x2)
            rows = [x1, x2]
        elif probe == "2nan":
            x1 = ctx.real("x1", feature_value=True)
            rows = [x1, float("nan")]
        elif probe == "1":
            rows = [ctx.real("x1", feature_value=True)]
        elif probe == "0":
            rows = []
        X = pd.DataFrame({"f": column(ctx, rows), "other": list(range(len(rows))),
                          # non-feature columns holding missing values (seed5-C07: a frame-wide fillna in transform)
                          "other_nan": [float("nan") if i % 2 == 0 else float(i) for i in range(len(rows))],
                          "other_obj": pd.Series([None if i % 2 == 0 else "x" for i in range(len(rows))], dtype=object)})
        X.index = [10 + i for i in range(len(rows))]
        x_in = X.copy()
        any_nan_row = probe == "2nan"
        try:
            out = d.transform(X)
        except AssertionError as e:
            if any_nan_row and not has_nan:
                ctx.require("'f'" in str(e) or " f " in str(e) or "f" in str(e), "C05.error-does-not-name-feature", str(e))
                return dict(counters={"rejected_nan": 1}, sample=dict(m=m, grouping=grouping, probe=probe, outcome="AssertionError"), result="AssertionError")
            ctx.require(False, "C05.valid-frame-rejected", f"transform raised AssertionError on finite values: {e}")
        except Violation:
            raise
        except Exception as e:
            ctx.require(False, "C05.internal-error", f"transform raised {type(e).__name__}: {e}")
        if any_nan_row and not has_nan:
            ctx.require(False, "C05.unexpected-nan-accepted", "NaN row accepted although the feature had no missing value at fit")
        col = list(out["f"])
        ctx.require(len(col) == len(rows), "C07.shape", "row count changed")

        def spec_rank(x):
            for r, (lead, _) in enumerate(spec):
                if bool(x <= lead):
                    return r
            return None

        ranks = []
        for x, o in zip(rows, col):
            if isinstance(x, float) and x != x:  # NaN row
                if dropna:
                    exp = group_labels[nan_group] if nan_group is not None else nan_label
                    ctx.require(eqv(o, exp), "C04.nan-row", f"NaN row got {o!r}, expected its group's label {exp!r}")
                    ranks.append("nan-label")
                else:
                    if nan_group is None:
                        ctx.require(isinstance(o, float) and o != o, "C04.nan-row", f"dropna=False: NaN row became {o!r}")
                    ranks.append("nan")
                continue
            r = spec_rank(x)
            exp = group_labels[r]
            if "C05" in props:
                ctx.require(contains(fitted_labels, o), "C05.raw-value-leak", f"output {o!r} for value {x!r} is not a fitted label {fitted_labels!r}")
            if "C04" in props or "C03" in props:
                if not (not dropna and has_nan and nan_group is not None and bool(eqv(exp, nan_label))):
                    ctx.require(eqv(o, exp), "C04.wrong-group", f"value {x!r} labelled {o!r}; first group with upper bound >= value has label {exp!r}")
            ranks.append(r)
        if "C03" in props and probe == "2" and output_dtype == "float":
            ctx.require(col[0] <= col[1], "C03.not-monotone", f"x1 <= x2 but transform gives {col[0]!r} > {col[1]!r}")
        if "C07" in props:
            ctx.require(list(out.index) == list(x_in.index) and list(out.columns) == list(x_in.columns), "C07.index-columns", "index/columns changed")
            ctx.require(list(out["other"]) == list(x_in["other"]), "C07.non-feature-column", "non-feature column changed")
            for oc in ("other_nan", "other_obj"):
                ctx.require(cells_same(list(out[oc]), list(x_in[oc])), "C07.non-feature-column", f"non-feature column {oc} (with missing values) changed: {list(out[oc])!r}")
            for a, b in zip(list(X["f"]), list(x_in["f"])):
                same = (a is b) or (isinstance(a, float) and a != a and b != b) or bool(eqv(a, b))
                ctx.require(same, "C07.input-mutated", "copy=True but the caller's X was modified")
            if probe == "2":
                # row purity: x1 alone gets the same label
                out1 = d.transform(X.iloc[[0]].copy())
                ctx.require(eqv(list(out1["f"])[0], col[0]), "C07.row-purity", "label of a row depends on the other rows")
                out_again = d.transform(X)
                for a, b in zip(list(out_again["f"]), col):
                    ctx.require(eqv(a, b), "C07.repeat-transform", "second transform differs")
        # ---- read-only calls (summary, to_json) must not change what transform returns afterwards
        if props & {"C04", "C07", "C16"} if isinstance(props, set) else set(props) & {"C04", "C07", "C16"}:
            try:
                d.summary()
                if getattr(ctx, "concrete", False):
                    d.to_json()
            except Exception as e:
                ctx.require(False, "C16.summary-internal-error", f"summary()/to_json() raised {type(e).__name__}: {str(e)[:120]}")
            again = list(d.transform(X)["f"])
            for a_, b_ in zip(again, col):
                same_ = (isinstance(a_, float) and a_ != a_ and isinstance(b_, float) and b_ != b_) or bool(eqv(a_, b_))
                ctx.require(same_, "C07.state-mutated-by-readonly-call", f"transform returns {again!r} after summary()/to_json(), {col!r} before")
        summ = None
        if "C16" in props:
            s = d.summary()
            rows_f = s.loc["f"] if "f" in s.index.get_level_values(0) else None
            ctx.require(rows_f is not None, "C16.summary-missing-feature", "summary() has no row for the feature")
            labels_s = list(s["label"])
            # a NaN modality kept on its own is a fitted group of values_orders: it may have its row
            exp_rows = g + (1 if has_nan and nan_group is None else 0)
            ctx.require(len(labels_s) == exp_rows, "C16.summary-rows", f"summary has {len(labels_s)} rows for {exp_rows} groups: {s.to_dict('records')}")
            for lab, content in zip(s["label"], s["content"]):
                if has_nan and nan_group is not None and bool(eqv(lab, group_labels[nan_group])):
                    ctx.require(NAN in content, "C16.summary-nan", f"NaN was merged into the group labelled {lab!r} but its summary content is {content!r}")
                elif not (has_nan and nan_group is None and bool(eqv(lab, nan_label))):
                    ctx.require(NAN not in content, "C16.summary-nan", f"NaN shown in group {lab!r} it does not belong to")
            summ = len(labels_s)
    return dict(
        counters={"ok": 1},
        sample=dict(m=m, grouping=grouping, nan_mode=nan_mode, output_dtype=output_dtype, dropna=dropna, rows=rows, ranks=ranks),
        result=dict(ranks=ranks, n_leaders=len(leaders), summary_rows=summ),
    )


def jobs(tier, props, ms=None):
    quick = tier == "quick"
    ms = ms or ([2, 3, 4] if quick else [2, 3, 4, 5, 6])
    out = []
    for m in ms:
        gs = contiguous_groupings(m)
        for gi, grouping in enumerate(gs):
            g = len(grouping)
            nan_modes = ["none", "alone"] + [str(i) for i in range(g)]
            if m >= 5:
                nan_modes = ["none", "alone", "0", str(g - 1)]
            for nan_mode in nan_modes:
                for od in ("float", "str"):
                    for dropna in (True, False):
                        if not dropna and nan_mode not in ("none", "alone"):
                            continue  # a carver never merges NaN when dropna=False
                        probes = ["2", "2nan"] if m <= 4 else ["2"]
                        if m == 2:
                            probes = probes + ["1", "0"]
                        for probe in probes:
                            out.append(dict(m=m, gi=gi, nan_mode=nan_mode, output_dtype=od, dropna=dropna, probe=probe, props=sorted(props)))
    return out


def obligation(tier, props, name, ms=None):
    quick = tier == "quick"
    return Obligation(
        name=name,
        harness=h_transform,
        jobs=jobs(tier, props, ms),
        encodes=ENC,
        rebindings=["R1 isnan/isfinite (symbolic value => finite, not NaN)", "R3 SNum.__format__ -> opaque token (value, spec)"],
        bounds=f"m <= {4 if quick else 6} boundaries b1<...<b(m-1) (any reals) + inf sentinel, every contiguous grouping, NaN absent/alone/merged into any group, "
               "output_dtype in {float,str}, dropna in {T,F}; probe rows x1<=x2 anywhere on the real line, or (x1, NaN), single-row and empty frames",
        outside="more boundaries; label text collisions of distinct boundaries (separate obligation O4.2); dropna=False with NaN merged (never produced by a carver)",
        twin_every=5,
    )
