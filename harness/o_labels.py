"""O4.2 — label injectivity of quantitative 'str' labels.

The boundary text is produced by f"{number:.Pe}" (P parsed from the repo source at run time).
z3 decides whether two *distinct* reals can render identically under %.Pe (round-half-even on P+1
significant digits): (exists e, d) v1,v2 in the same rounding cell.  Every witness is then pushed
through the real format_quantiles / get_labels and through a real BinaryCarver.fit; only a
collision observed on the real code is a violation."""
from __future__ import annotations

import ast
import inspect
import math
import time


def parse_precision():
    import AutoCarver.discretizers.utils.base_discretizers as bd

    src = inspect.getsource(bd.format_quantiles)
    precs = []
    for node in ast.walk(ast.parse(src.lstrip())):
        if isinstance(node, ast.FormattedValue) and node.format_spec is not None:
            spec = "".join(v.value for v in node.format_spec.values if isinstance(v, ast.Constant))
            if spec.startswith(".") and spec.endswith("e") and spec[1:-1].isdigit():
                precs.append(int(spec[1:-1]))
        if isinstance(node, ast.Assign) and len(node.targets) == 1 and isinstance(node.targets[0], ast.Name) \
                and "prec" in node.targets[0].id and isinstance(node.value, ast.Constant) and isinstance(node.value.value, int):
            precs.append(node.value.value)
    return precs[0] if precs else 3  # documented default: 4 significant digits


def collision_witnesses(p, decades):
    """z3: v1 < v2, both in [10^e, 10^(e+1)), same rounded mantissa at p decimals -> same %.pe text."""
    import z3

    out, nq, ts = [], 0, 0.0
    for e in decades:
        s = z3.Solver()
        s.set("timeout", 20000)
        v1, v2, v3 = z3.Reals("v1 v2 v3")
        d = z3.Int("d")
        unit = z3.RealVal(10) ** (e - p) if False else z3.Q(10 ** max(e - p, 0), 10 ** max(p - e, 0))
        lo, hi = z3.Q(10 ** max(e, 0), 10 ** max(-e, 0)), z3.Q(10 ** max(e + 1, 0), 10 ** max(-e - 1, 0))
        s.add(v1 >= lo, v3 < hi, v1 < v2, v2 < v3, d >= 10 ** p, d < 10 ** (p + 1))
        # both strictly inside the rounding cell of mantissa d (strict: no dependence on tie rule)
        s.add(v1 > (z3.ToReal(d) - z3.Q(1, 2)) * unit, v3 < (z3.ToReal(d) + z3.Q(1, 2)) * unit)
        # prefer integers (realistic discrete features) when the cell is wide enough
        if e - p >= 1:
            i1, i2, i3 = z3.Ints("i1 i2 i3")
            s.add(v1 == z3.ToReal(i1), v2 == z3.ToReal(i2), v3 == z3.ToReal(i3))
        t = time.perf_counter()
        r = s.check()
        ts += time.perf_counter() - t
        nq += 1
        if str(r) == "sat":
            m = s.model()
            f = lambda x: float(m.eval(x).as_fraction())
            out.append((f(v1), f(v2), f(v3), e))
        elif str(r) == "unknown":
            raise RuntimeError("z3 unknown on the rounding-cell query")
    return out, nq, ts


def run(tier):
    import numpy as np
    import pandas as pd

    import AutoCarver.discretizers.utils.base_discretizers as bd

    t0 = time.time()
    p = parse_precision()
    res = dict(name="O4.2 distinct boundaries get distinct interval labels (z3 rounding-cell witnesses replayed on the real format_quantiles and a real fit)",
               ok=False, states=0, queries=0, solver_s=0.0, twin=0, violations=[], errors=[], samples=[])
    decades = [-4, -1, 0, 2, 5, 8] if tier == "quick" else list(range(-6, 10))
    pairs = []
    if p is not None:
        try:
            w, nq, ts = collision_witnesses(p, decades)
            res["queries"], res["solver_s"] = nq, round(ts, 3)
            pairs += [(a, b, c, f"%.{p}e cell, decade {e}") for a, b, c, e in w]
        except Exception as e:
            res["errors"].append(f"O4.2 solver: {type(e).__name__}: {e}")
    res["precision_parsed_from_source"] = p
    # adjacent doubles: distinct boundaries at the finest resolution any fixed-precision format must separate
    for v in (1.0, 123456.789, 1e-5, 2.5e8):
        v2 = float(np.nextafter(v, np.inf))
        v3 = float(np.nextafter(v2, np.inf))
        pairs.append((v, v2, v3, "adjacent doubles"))
        pairs.append((-v3, -v2, -v, "adjacent doubles (negative)"))
    for a, b, c3, why in pairs:
        res["states"] += 1
        try:
            labels = bd.get_labels([a, b, c3, float("inf")], "__NAN__")
        except Exception as e:
            res["errors"].append(f"get_labels raised {type(e).__name__}: {e}")
            continue
        res["twin"] += 1
        collide = len(set(labels)) < len(labels)
        if len(res["samples"]) < 3:
            res["samples"].append(dict(v1=a, v2=b, v3=c3, why=why, labels=labels))
        if collide:
            # API-level confirmation: a carver fitted on a feature taking both values
            api = None
            try:
                from AutoCarver import BinaryCarver

                X = pd.DataFrame({"f": [a] * 10 + [b] * 10 + [c3] * 10 + [c3 + abs(c3) + 1.0] * 10})
                y = pd.Series([0] * 9 + [1] * 1 + [0] * 7 + [1] * 3 + [0] * 4 + [1] * 6 + [0] * 1 + [1] * 9)
                c = BinaryCarver(min_freq=0.2, sort_by="cramerv", quantitative_features=["f"], max_n_mod=4, copy=True, output_dtype="str")
                out = c.fit_transform(X, y)
                nl = out["f"].nunique() if "f" in c.features else None
                api = f"fit ok, features={c.features}, distinct output labels={nl}, groups={len(c.values_orders.get('f', []))}"
                api_bad = "f" in c.features and nl != len(c.values_orders["f"])
            except AssertionError as e:
                api, api_bad = f"AssertionError: {str(e)[:100]}", False
            except Exception as e:
                api, api_bad = f"{type(e).__name__}: {str(e)[:100]}", True
            res["violations"].append(dict(
                ob=res["name"], kind="C04.label-collision-format", reproduced=True,
                message=f"distinct boundaries {a!r} < {b!r} < {c3!r} ({why}) yield a repeated interval label {labels!r}; carver on such a feature: {api}",
                model=dict(v1=a, v2=b, v3=c3), raw_model=dict(v1=repr(a), v2=repr(b), v3=repr(c3)), job=dict(obligation="O4.2"),
                extra=dict(why="adjacent doubles" if "adjacent" in why else "fixed precision", api_breaks=bool(api_bad)),
            ))
    res["ok"] = not res["violations"] and not res["errors"]
    res["wall_s"] = round(time.time() - t0, 2)
    res["bounds"] = f"|v| in 10^{decades[0]}..10^{decades[-1] + 1}, one z3 witness pair per decade + adjacent-double pairs"
    return res
