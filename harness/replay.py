"""Replays a recorded counterexample concretely (ConcreteCtx) on the unstubbed real code."""
import importlib
import json
import sys
import fractions


def main():
    path = sys.argv[1]
    rec = json.load(open(path))
    import harness.common  # noqa
    from symx import ConcreteCtx, Violation, Infeasible

    mod = importlib.import_module(f"harness.{rec['property']}")
    obls = {o.name: o for tier in ("quick", "thorough") for o in mod.obligations(tier)}
    ob = obls[rec["obligation"]]
    model = {}
    for k, v in (rec.get("raw_model") or rec["model"]).items():
        if isinstance(v, str):
            v = {"True": True, "False": False}.get(v, v)
            if isinstance(v, str):
                fr = fractions.Fraction(v)
                v = int(fr) if fr.denominator == 1 and "/" not in v and "." not in v else fr
        model[k] = v
    job = rec["job"]
    job = {k: (tuple(v) if isinstance(v, list) and k in ("shape", "leader_pos") else v) for k, v in job.items()}
    try:
        ob.harness(ConcreteCtx(model), **job)
    except Violation as v:
        print(f"REPRODUCED property={rec['property']} {v.kind}: {v.message}")
        sys.exit(1)
    except Infeasible:
        print("model does not satisfy the harness assumptions")
        sys.exit(2)
    print("not reproduced (property holds on this input)")
    sys.exit(0)


main()
