"""CLI: python -m harness.run <ID> [--tier quick|thorough]"""
import argparse
import importlib
import os
import sys

sys.setrecursionlimit(10000)


def main():
    ap = argparse.ArgumentParser()
    ap.add_argument("prop")
    ap.add_argument("--tier", default=os.environ.get("VERIF_TIER", "quick"), choices=["quick", "thorough"])
    args = ap.parse_args()
    seed = int(os.environ.get("VERIF_SEED", "0") or 0)
    import harness.common  # noqa: F401  (puts /repo on sys.path)
    from symx import run_check

    mod = importlib.import_module(f"harness.{args.prop}")
    obls = mod.obligations(args.tier)
    rc = run_check(
        args.prop, args.tier, obls,
        assumptions=getattr(mod, "ASSUMPTIONS", []),
        seed=seed,
        post=getattr(mod, "post", None),
        wall_budget_s=getattr(mod, "WALL_BUDGET", {}).get(args.tier),
        extra_coverage=getattr(mod, "EXTRA_COVERAGE", None),
    )
    sys.exit(rc)


if __name__ == "__main__":
    main()
