"""CrossHair bridge (string-domain obligations).  Writes nothing under /repo; the PEP-316 harness
files live in /verif/crosshair/ and import the real functions from /repo's working tree."""
from __future__ import annotations

import ast
import os
import re
import subprocess
import sys
import time

from harness.common import REPO

VERIF = os.path.dirname(os.path.dirname(os.path.abspath(__file__)))
_LINE = re.compile(r"^(?P<file>[^:]+):(?P<line>\d+): (?P<level>error|info): (?P<msg>.*)$")
_CALL = re.compile(r"when calling (?P<fn>\w+)\((?P<args>.*)\) \(which (returns|raises) ")


def run_file(path, per_condition_timeout=30, extra_env=None):
    """Returns list of dict(fn, line, verdict in {'confirmed','refuted','unknown'}, args (python literal tuple or None), msg)."""
    env = dict(os.environ, PYTHONPATH=f"{REPO}:{VERIF}", PYTHONHASHSEED="0")
    env.update(extra_env or {})
    t0 = time.time()
    proc = subprocess.run(
        [sys.executable, "-m", "crosshair", "check", "--report_all", "--per_condition_timeout", str(per_condition_timeout), path],
        capture_output=True, text=True, env=env, timeout=per_condition_timeout * 40 + 120,
    )
    wall = time.time() - t0
    src = open(path).read()
    tree = ast.parse(src)
    fn_at_line = {}
    for node in ast.walk(tree):
        if isinstance(node, ast.FunctionDef):
            for ln in range(node.lineno, node.end_lineno + 1):
                fn_at_line[ln] = node.name
    res = {}
    for raw in (proc.stdout + "\n" + proc.stderr).splitlines():
        m = _LINE.match(raw.strip())
        if not m:
            continue
        fn = fn_at_line.get(int(m.group("line")))
        msg = m.group("msg")
        if fn is None:
            continue
        r = res.setdefault(fn, dict(fn=fn, verdict="unknown", args=None, msg=""))
        if m.group("level") == "error":
            r["verdict"] = "refuted"
            r["msg"] = msg
            c = _CALL.search(msg)
            if c:
                try:
                    r["args"] = ast.literal_eval("(" + c.group("args") + ",)")
                except Exception:
                    r["args"] = None
        elif "Confirmed over all paths" in msg and r["verdict"] != "refuted":
            r["verdict"] = "confirmed"
            r["msg"] = msg
        elif r["verdict"] == "unknown":
            r["msg"] = msg
    return list(res.values()), wall, proc.returncode, (proc.stdout + proc.stderr)[-2000:]
