from .core import *  # noqa
from .core import _lift, _wrap_bool, _wrap_num  # noqa
from .concrete import ConcreteCtx  # noqa
from .driver import Obligation, run_check  # noqa
