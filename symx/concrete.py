"""Concrete twin of Ctx: the same harness code runs the *unstubbed* real functions on plain
Python/numpy values taken from a solver model.  Used (a) to replay every counterexample before it
is reported and (b) as translation validation of the rebindings on sampled paths."""
from __future__ import annotations

import fractions

from .core import Infeasible, Violation


class ConcreteCtx:
    concrete = True

    def __init__(self, model, purpose="replay"):
        self.purpose = purpose  # "twin": mirror a symbolic path; "replay": confirm a counterexample
        self.model = dict(model)
        self.notes = {}
        self.assumptions = []
        self.symbols = {}
        self.nq = 0
        self.tq = 0.0

    def _get(self, name):
        if name not in self.model:
            raise KeyError(f"model has no value for {name}")
        return self.model[name]

    def real(self, name, feature_value=False):
        v = self._get(name)
        return float(v)

    def int(self, name, lo=None, hi=None):
        v = self._get(name)
        if int(v) != v:
            raise Infeasible()
        v = int(v)
        if (lo is not None and v < lo) or (hi is not None and v > hi):
            raise Infeasible()
        return v

    def count(self, name, lo, hi):
        return self.int(name, lo, hi)

    def bool(self, name):
        return bool(self._get(name))

    def choose(self, name, n):
        if n <= 1:
            return 0
        return int(self._get(name))

    def assume(self, expr, note=None):
        if not bool(expr):
            raise Infeasible()

    def feasible(self, expr):
        return bool(expr)

    def prove(self, expr):
        return True if bool(expr) else {}

    def require(self, cond, kind, message="", extra=None):
        if not bool(cond):
            raise Violation(kind, message, jsonable(self.model), extra)

    def path_model(self):
        return dict(self.model)


def jsonable(o):
    if isinstance(o, fractions.Fraction):
        return float(o) if fractions.Fraction(float(o)) == o else str(o)
    if isinstance(o, dict):
        return {str(k): jsonable(v) for k, v in o.items()}
    if isinstance(o, (list, tuple)):
        return [jsonable(v) for v in o]
    try:
        import numpy as np

        if isinstance(o, np.generic):
            return jsonable(o.item())
    except ImportError:
        pass
    if isinstance(o, float):
        if o != o:
            return "nan"
        if o in (float("inf"), float("-inf")):
            return "inf" if o > 0 else "-inf"
        return o
    if isinstance(o, (int, str, bool)) or o is None:
        return o
    return repr(o)
