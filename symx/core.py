"""symx core: a small path-exploring symbolic executor on the z3 Python API.

Proxies (SNum / SBool) are ordinary Python objects that live inside real numpy object arrays
and real pandas object columns.  Every ``bool()`` on a symbolic condition asks the solver which
sides are feasible under the current path condition; infeasible sides are pruned, when both are
feasible the run continues on one side and the decision prefix of the other is put on a DFS
work-list.  A run is re-executed from the start for each prefix (the functions under test are
cheap and deterministic).

The deciding step is always the solver: a path is explored iff z3 says its condition is
satisfiable, and a property holds on a path iff z3 says ``path AND NOT property`` is
unsatisfiable.  ``unknown`` is never success (SolverUnknown -> inconclusive).
"""
from __future__ import annotations

import fractions
import math
import time

import z3


class Infeasible(BaseException):
    """Current path condition is unsatisfiable (raised by assume / branch)."""


class SolverUnknown(BaseException):
    """z3 answered unknown / timed out: the whole check becomes inconclusive."""


class EncodingError(BaseException):
    """The symbolic encoding cannot represent what the code asked for (e.g. float(sym))."""


class Violation(Exception):
    """The property is refuted on this path; carries a concrete model of the symbolic inputs."""

    def __init__(self, kind, message, model=None, extra=None):
        super().__init__(f"{kind}: {message}")
        self.kind = kind
        self.message = message
        self.model = model or {}
        self.extra = extra or {}


class PathBudget(BaseException):
    """Raised inside a harness when the per-task budget is exhausted (never a verdict)."""


class Ctx:
    concrete = False
    """One path execution."""

    cur: "Ctx" = None
    SOLVER_TIMEOUT_MS = 20000

    def __init__(self, prefix=()):
        self.solver = z3.Solver()
        self.solver.set("timeout", self.SOLVER_TIMEOUT_MS)
        self.prefix = list(prefix)
        self.trace = []  # (decision, has_alternative)
        self.pos = 0
        self.nq = 0
        self.tq = 0.0
        self.fresh_n = 0
        self._model = None  # a model of the current path condition, or None if stale
        self._decided = {}  # ast id -> bool, conditions already decided on this path
        self.symbols = {}  # name -> z3 const (inputs, for model extraction)
        self.notes = {}  # free-form per-path record filled by harnesses
        self.assumptions = []

    # ------------------------------------------------------------------ solver plumbing
    def _check(self, *extra):
        t = time.perf_counter()
        r = self.solver.check(*extra)
        self.tq += time.perf_counter() - t
        self.nq += 1
        if r == z3.unknown:
            raise SolverUnknown(f"z3 unknown: {self.solver.reason_unknown()}")
        return r == z3.sat

    def _ensure_model(self):
        if self._model is None:
            if not self._check():
                raise Infeasible()
            self._model = self.solver.model()
        return self._model

    def _add(self, expr, value):
        self.solver.add(expr if value else z3.Not(expr))
        self._decided[expr.get_id()] = value

    # ------------------------------------------------------------------ branching
    def branch(self, expr) -> bool:
        expr = z3.simplify(expr)
        if z3.is_true(expr):
            return True
        if z3.is_false(expr):
            return False
        known = self._decided.get(expr.get_id())
        if known is not None:
            return known
        if self.pos < len(self.prefix):
            d = self.prefix[self.pos]
            if isinstance(d, tuple):  # (decision, fingerprint of the condition decided in the original run)
                d, fp = d
                if fp != _fingerprint(expr):
                    raise EncodingError("non-deterministic replay: a decision prefix met a different condition than in the run that recorded it")
            self.pos += 1
            self.trace.append((d, False, _fingerprint(expr)))
            self._add(expr, d)
            self._model = None
            return d
        # new decision.  One side comes for free from the cached model, one query for the other.
        model = self._ensure_model()
        side = z3.is_true(model.eval(expr, model_completion=True))
        other_feasible = self._check(z3.Not(expr) if side else expr)
        self.pos += 1
        self.trace.append((side, other_feasible, _fingerprint(expr)))
        self._add(expr, side)
        # the cached model satisfies `side`, so it stays valid
        return side

    def assume(self, expr, note=None):
        """Constrain the inputs (part of the claim; recorded)."""
        if isinstance(expr, SBool):
            expr = expr.e
        if type(expr).__name__ == "bool_":
            expr = bool(expr)
        if isinstance(expr, bool):
            if not expr:
                raise Infeasible()
            return
        self.solver.add(expr)
        self._model = None
        if note:
            self.assumptions.append(note)

    def feasible(self, expr) -> bool:
        if isinstance(expr, SBool):
            expr = expr.e
        if isinstance(expr, bool):
            return expr
        return self._check(expr)

    def prove(self, expr):
        """True if the path condition implies expr; otherwise a z3 model refuting it."""
        if isinstance(expr, SBool):
            expr = expr.e
        if type(expr).__name__ == "bool_":  # numpy bool
            expr = bool(expr)
        if isinstance(expr, bool):
            if expr:
                return True
            self._ensure_model()
            return self._model
        expr = z3.simplify(expr)
        if z3.is_true(expr):
            return True
        if self._decided.get(expr.get_id()) is True:
            return True
        if self._check(z3.Not(expr)):
            return self.solver.model()
        return True

    def require(self, cond, kind, message="", extra=None):
        """Property assertion: proved by the solver from the path condition or Violation."""
        r = self.prove(cond)
        if r is True:
            return
        raise Violation(kind, message, self.extract(r), extra)

    # ------------------------------------------------------------------ symbols
    def real(self, name, feature_value=False):
        c = z3.Real(name)
        self.symbols[name] = c
        s = SNum(c)
        if feature_value:
            s = SVal(c)
        return s

    def int(self, name, lo=None, hi=None):
        c = z3.Int(name)
        self.symbols[name] = c
        if lo is not None:
            self.solver.add(c >= lo)
        if hi is not None:
            self.solver.add(c <= hi)
        self._model = None
        return SNum(c)

    def count(self, name, lo, hi):
        """A bounded integer encoded as a finite-domain Real (keeps queries in LRA: measured 10x
        faster than Int/ToReal mixtures on the selection harness)."""
        c = z3.Real(name)
        self.symbols[name] = c
        self.solver.add(z3.Or([c == v for v in range(lo, hi + 1)]))
        self._model = None
        return SNum(c)

    def bool(self, name):
        c = z3.Bool(name)
        self.symbols[name] = c
        return SBool(c)

    def fresh(self, sort, name="t"):
        self.fresh_n += 1
        return z3.Const(f"{name}!{self.fresh_n}", sort)

    def choose(self, name, n):
        """Solver-chosen integer in range(n), concretised by forks."""
        if n <= 1:
            return 0
        v = self.int(name, 0, n - 1)
        return concretize(v, 0, n - 1)

    # ------------------------------------------------------------------ models
    def extract(self, model=None):
        if model is None:
            model = self._ensure_model()
        out = {}
        for name, c in self.symbols.items():
            out[name] = model_value(model, c)
        return out

    def path_model(self, distinct=None):
        """A concrete model of the inputs on the current path.  `distinct`: names of symbols that
        should take pairwise distinct values when the path allows it (returns None otherwise) — used
        by the concrete twin to avoid models with accidental ties, whose tie-breaking inside
        numpy/pandas sorts legitimately differs between object and float arrays."""
        self._model = None
        if distinct:
            syms = [self.symbols[n] for n in distinct if n in self.symbols]
            if len(syms) > 1:
                self.solver.push()
                try:
                    self.solver.add(z3.Distinct(*syms))
                    if not self._check():
                        return None
                    return self.extract(self.solver.model())
                finally:
                    self.solver.pop()
        return self.extract(self._ensure_model())


def _fingerprint(expr):
    """Process-independent fingerprint of a branch condition (replay determinism check)."""
    import zlib

    return zlib.crc32(expr.sexpr().encode())


def model_value(model, c):
    v = model.eval(c, model_completion=True)
    if z3.is_bool(v):
        return z3.is_true(v)
    if z3.is_int_value(v) or z3.is_bv_value(v):
        return v.as_long()
    if z3.is_rational_value(v):
        return fractions.Fraction(v.numerator_as_long(), v.denominator_as_long())
    if z3.is_algebraic_value(v):
        return float(v.approx(20).as_fraction())
    raise EncodingError(f"cannot extract {v}")


def evalm(model_dict, obj):
    """Evaluate a result structure containing proxies under a concrete input model."""
    if isinstance(obj, Sym):
        subst = []
        for name, val in model_dict.items():
            if isinstance(val, bool):
                subst.append((z3.Bool(name), z3.BoolVal(val)))
            elif isinstance(val, int):
                subst.append((z3.Int(name), z3.IntVal(val)))
                subst.append((z3.Real(name), z3.RealVal(val)))
            else:
                subst.append((z3.Real(name), z3.RealVal(fractions.Fraction(val))))
        v = z3.simplify(z3.substitute(obj.e, *subst))
        if z3.is_true(v):
            return True
        if z3.is_false(v):
            return False
        if z3.is_int_value(v):
            return v.as_long()
        if z3.is_rational_value(v):
            return fractions.Fraction(v.numerator_as_long(), v.denominator_as_long())
        raise EncodingError(f"result not closed under model: {v}")
    if isinstance(obj, dict):
        return {evalm(model_dict, k): evalm(model_dict, v) for k, v in obj.items()}
    if isinstance(obj, (list, tuple)):
        return type(obj)(evalm(model_dict, v) for v in obj) if not hasattr(obj, "content") else [
            evalm(model_dict, v) for v in obj
        ]
    return obj


# ---------------------------------------------------------------------- proxies
def _lift(v):
    if isinstance(v, Sym):
        return v.e
    if isinstance(v, bool):
        return z3.BoolVal(v)
    if isinstance(v, int):
        return z3.IntVal(v)
    if isinstance(v, fractions.Fraction):
        return z3.RealVal(v)
    if isinstance(v, float):
        if math.isnan(v) or math.isinf(v):
            raise EncodingError("nan/inf lifted into a term")
        return z3.RealVal(fractions.Fraction(v))
    try:
        import numpy as _np

        if isinstance(v, _np.generic):
            return _lift(v.item())
    except ImportError:  # pragma: no cover
        pass
    raise EncodingError(f"cannot lift {type(v)}")


def _is_num(o):
    if isinstance(o, (Sym, int, float, fractions.Fraction)):
        return True
    try:
        import numpy as _np

        return isinstance(o, _np.number) or isinstance(o, _np.bool_)
    except ImportError:  # pragma: no cover
        return False


def _wrap_num(e):
    e = z3.simplify(e)
    if z3.is_int_value(e):
        return e.as_long()
    if z3.is_rational_value(e):
        fr = fractions.Fraction(e.numerator_as_long(), e.denominator_as_long())
        fl = float(fr)
        return fl if fractions.Fraction(fl) == fr else fr
    return SNum(e)


def _wrap_bool(e):
    e = z3.simplify(e)
    if z3.is_true(e):
        return True
    if z3.is_false(e):
        return False
    return SBool(e)


def _num2(a, b):
    a, b = _lift(a), _lift(b)
    if a.sort() != b.sort():
        if z3.is_int(a):
            a = z3.ToReal(a)
        if z3.is_int(b):
            b = z3.ToReal(b)
    return a, b


_PICKLE_REG = {}


def _revive(key):
    try:
        return _PICKLE_REG[key]
    except KeyError:
        raise EncodingError("a symbolic value crossed a process boundary")


def _np_nan():
    """NaN as a numpy scalar: keeps numpy's float semantics (nan/0 -> nan) inside object arrays."""
    import numpy as _np

    return _np.float64("nan")


class Sym:
    __slots__ = ("e",)
    __array_ufunc__ = None  # numpy defers mixed ndarray∘Sym operations to the proxy
    __array_priority__ = 1000

    def __init__(self, e):
        self.e = e

    def __repr__(self):
        return f"<{self.e}>"

    def __deepcopy__(self, memo):
        return self

    def __copy__(self):
        return self

    def __reduce__(self):
        # in-process pickling only (the in-process pool of R8 round-trips arguments through pickle,
        # as multiprocessing does): the copy is the same term.  A real child process cannot revive it.
        _PICKLE_REG[id(self)] = self
        return (_revive, (id(self),))


class SBool(Sym):
    __slots__ = ()

    def __bool__(self):
        return Ctx.cur.branch(self.e)

    def __and__(self, o):
        if isinstance(o, (bool, SBool)):
            return _wrap_bool(z3.And(self.e, _lift(o)))
        return NotImplemented

    __rand__ = __and__

    def __or__(self, o):
        if isinstance(o, (bool, SBool)):
            return _wrap_bool(z3.Or(self.e, _lift(o)))
        return NotImplemented

    __ror__ = __or__

    def __invert__(self):
        return _wrap_bool(z3.Not(self.e))

    def __eq__(self, o):
        if isinstance(o, (bool, SBool)):
            return _wrap_bool(self.e == _lift(o))
        return bool(self) == o

    def __ne__(self, o):
        if isinstance(o, (bool, SBool)):
            return _wrap_bool(self.e != _lift(o))
        return bool(self) != o

    def __hash__(self):
        return 1

    def __int__(self):
        return int(bool(self))

    def __index__(self):
        return int(bool(self))


_OPS = {
    "lt": lambda a, b: a < b,
    "le": lambda a, b: a <= b,
    "gt": lambda a, b: a > b,
    "ge": lambda a, b: a >= b,
    "eq": lambda a, b: a == b,
    "ne": lambda a, b: a != b,
}
_SWAP = {"lt": "gt", "le": "ge", "gt": "lt", "ge": "le", "eq": "eq", "ne": "ne"}


class SNum(Sym):
    """A symbolic number (z3 Int or Real term)."""

    __slots__ = ()

    # -- arithmetic
    @staticmethod
    def _nan(o):
        return isinstance(o, float) and o != o

    def _arith_ok(self, o):
        if isinstance(o, SVal):
            raise EncodingError("arithmetic on a feature value (F1): the numeric model would be unsound")

    def __add__(self, o):
        if not _is_num(o):
            return NotImplemented
        if self._nan(o):
            return _np_nan()
        self._arith_ok(o)
        a, b = _num2(self, o)
        return _wrap_num(a + b)

    def __radd__(self, o):
        if not _is_num(o):
            return NotImplemented
        if self._nan(o):
            return _np_nan()
        a, b = _num2(o, self)
        return _wrap_num(a + b)

    def __sub__(self, o):
        if not _is_num(o):
            return NotImplemented
        if self._nan(o):
            return _np_nan()
        self._arith_ok(o)
        a, b = _num2(self, o)
        return _wrap_num(a - b)

    def __rsub__(self, o):
        if not _is_num(o):
            return NotImplemented
        if self._nan(o):
            return _np_nan()
        a, b = _num2(o, self)
        return _wrap_num(a - b)

    def __mul__(self, o):
        if not _is_num(o):
            return NotImplemented
        if self._nan(o):
            return _np_nan()
        self._arith_ok(o)
        a, b = _num2(self, o)
        return _wrap_num(a * b)

    def __rmul__(self, o):
        if not _is_num(o):
            return NotImplemented
        if self._nan(o):
            return _np_nan()
        a, b = _num2(o, self)
        return _wrap_num(a * b)

    def __truediv__(self, o):
        if not _is_num(o):
            return NotImplemented
        if self._nan(o):
            return _np_nan()
        self._arith_ok(o)
        a, b = _num2(self, o)
        if z3.is_int(a):
            a = z3.ToReal(a)
        if z3.is_int(b):
            b = z3.ToReal(b)
        if not isinstance(o, Sym) and o == 0:
            raise ZeroDivisionError("symbolic / 0")
        return _wrap_num(a / b)

    def __rtruediv__(self, o):
        if not _is_num(o):
            return NotImplemented
        if self._nan(o):
            return _np_nan()
        a, b = _num2(o, self)
        if z3.is_int(a):
            a = z3.ToReal(a)
        if z3.is_int(b):
            b = z3.ToReal(b)
        return _wrap_num(a / b)

    def __neg__(self):
        return _wrap_num(-self.e)

    def __pos__(self):
        return self

    def __abs__(self):
        return _wrap_num(z3.If(self.e >= 0, self.e, -self.e))

    # -- comparisons
    def _cmp(self, o, op):
        import numpy as _np

        if isinstance(o, _np.ndarray):
            f = _OPS[op]
            return _np.array([bool(f(self, x)) for x in o.ravel()], dtype=bool).reshape(o.shape)
        if isinstance(o, _np.generic):
            o = o.item()
        if isinstance(o, float) and (math.isinf(o) or math.isnan(o)):
            if math.isnan(o):
                return op == "ne"
            pos = o > 0
            return {"lt": pos, "le": pos, "gt": not pos, "ge": not pos, "eq": False, "ne": True}[op]
        if not _is_num(o) or isinstance(o, SBool):
            if op == "eq":
                return False
            if op == "ne":
                return True
            return NotImplemented
        a, b = _num2(self, o)
        return _wrap_bool(_OPS[op](a, b))

    def __lt__(self, o):
        return self._cmp(o, "lt")

    def __le__(self, o):
        return self._cmp(o, "le")

    def __gt__(self, o):
        return self._cmp(o, "gt")

    def __ge__(self, o):
        return self._cmp(o, "ge")

    def __eq__(self, o):
        return self._cmp(o, "eq")

    def __ne__(self, o):
        return self._cmp(o, "ne")

    def __hash__(self):
        # constant: CPython's dict/set/list code then compares with ==, which forks lazily
        return 0

    # -- concretisation points
    def __bool__(self):
        return bool(self != 0)

    def __index__(self):
        if not z3.is_int(self.e):
            raise EncodingError("__index__ on a Real term")
        return concretize(self)

    def __int__(self):
        if not z3.is_int(self.e):
            # truncation toward zero of a real term (e.g. int(min_freq * n_rows)): forks over its integer values
            e = self.e
            return concretize(SNum(z3.If(e >= 0, z3.ToInt(e), -z3.ToInt(-e))))
        return concretize(self)

    __trunc__ = __int__

    def __floor__(self):
        return concretize(self if z3.is_int(self.e) else SNum(z3.ToInt(self.e)))

    def __ceil__(self):
        return concretize(self if z3.is_int(self.e) else SNum(-z3.ToInt(-self.e)))

    def __float__(self):
        raise EncodingError("float() requested on a symbolic value")

    def __format__(self, spec):
        return Ctx.cur.notes.setdefault("_fmt", FormatRegistry()).token(self, spec)

    def __str__(self):
        return self.__format__("")

    def __round__(self, n=None):
        raise EncodingError("round() on a symbolic value")


class SVal(SNum):
    """A feature value: only compared, selected and stored — never computed with (DESIGN F1)."""

    __slots__ = ()

    def _no(self, *a):
        raise EncodingError("arithmetic on a feature value (F1): the numeric model would be unsound")

    __add__ = __radd__ = __sub__ = __rsub__ = __mul__ = __rmul__ = _no
    __truediv__ = __rtruediv__ = __neg__ = __abs__ = _no

    def __hash__(self):
        return 0

    __eq__ = SNum.__eq__
    __ne__ = SNum.__ne__


class FormatRegistry:
    """R3: f"{q:.3e}" on a symbol returns an opaque token that remembers (term, spec)."""

    def __init__(self):
        self.tokens = {}

    def token(self, sym, spec):
        key = (sym.e.get_id(), spec)
        if key not in self.tokens:
            self.tokens[key] = (f"⟨{sym.e}:{spec}⟩", sym, spec)
        return self.tokens[key][0]

    def by_token(self):
        return {tok: (sym, spec) for tok, sym, spec in self.tokens.values()}


def concretize(s, lo=None, hi=None):
    """Fork over the feasible values of an Int term.  Candidates are tried in a FIXED order (lo..hi, or
    0, 1, -1, 2, -2, ...): the branch conditions must not depend on which model the solver happens to
    return, otherwise a decision prefix recorded by one run would meet other conditions when replayed
    (models are not reproducible across worker processes)."""
    if not isinstance(s, Sym):
        return int(s)
    ctx = Ctx.cur
    if lo is not None and hi is not None:
        cands = range(lo, hi + 1)
    else:
        cands = [0] + [v for k in range(1, 513) for v in (k, -k)]
    last = None
    for val in cands:
        last = val
        if ctx.branch(s.e == val):
            return val
    raise EncodingError(f"concretisation exhausted its candidates (last {last}) for {s.e}")


def sym_any(it):
    return any(bool(x) for x in it)


# ---------------------------------------------------------------------- exploration
class PathResult:
    __slots__ = ("status", "record", "trace_len", "nq", "tq", "violation", "error")

    def __init__(self):
        self.status = None
        self.record = None
        self.violation = None
        self.error = None


def run_path(harness, prefix, kwargs):
    """Execute one path; returns (ctx, status, payload)."""
    ctx = Ctx(prefix)
    Ctx.cur = ctx
    try:
        rec = harness(ctx, **kwargs)
        return ctx, "ok", rec
    except Infeasible:
        return ctx, "infeasible", None
    except Violation as v:
        return ctx, "violation", v
    finally:
        Ctx.cur = None


def explore_subtree(harness, kwargs, root_prefix=(), budget_s=None, max_paths=None):
    """DFS below root_prefix.  Returns dict(paths, infeasible, nq, tq, records, violations,
    leftovers) — leftovers are unexplored prefixes when the budget ran out."""
    stack = [list(root_prefix)]
    out = dict(paths=0, infeasible=0, nq=0, tq=0.0, records=[], violations=[], leftovers=[])
    t0 = time.perf_counter()
    while stack:
        if (budget_s is not None and time.perf_counter() - t0 > budget_s and out["paths"] > 0) or (
            max_paths is not None and out["paths"] >= max_paths
        ):
            out["leftovers"] = stack
            break
        prefix = stack.pop()
        ctx, status, payload = run_path(harness, prefix, kwargs)
        out["nq"] += ctx.nq
        out["tq"] += ctx.tq
        for i in range(len(prefix), len(ctx.trace)):
            d, alt, fp = ctx.trace[i]
            if alt:
                stack.append([(t[0], t[2]) for t in ctx.trace[:i]] + [(not d, fp)])
        if status == "infeasible":
            out["infeasible"] += 1
            continue
        out["paths"] += 1
        if status == "violation":
            out["violations"].append(
                dict(kind=payload.kind, message=payload.message, model=payload.model, extra=payload.extra)
            )
        elif payload is not None:
            out["records"].append(payload)
    return out
