"""Parallel driver: shards path exploration over cores, validates sampled paths against the real
unstubbed code (concrete twin), replays counterexamples before reporting, applies the
known-findings file, writes the evidence file and sets the exit code.

exit 0  property held on everything explored (KNOWN-FINDING lines possible)
exit 1  reproducing violation not listed in known_findings.json  (VIOLATION line)
exit 2  inconclusive / harness error (never a verdict; must not happen on the unchanged tree)
"""
from __future__ import annotations

import concurrent.futures as cf
import hashlib
import json
import multiprocessing as mp
import os
import sys
import time
import traceback
from dataclasses import dataclass, field

from .concrete import ConcreteCtx, jsonable
from .core import (
    Ctx,
    EncodingError,
    Infeasible,
    SolverUnknown,
    Sym,
    Violation,
    evalm,
    run_path,
)

VERIF = os.path.dirname(os.path.dirname(os.path.abspath(__file__)))


@dataclass
class Obligation:
    name: str
    harness: object  # callable(ctx, **job) -> dict | None
    jobs: list
    encodes: list = field(default_factory=list)  # real functions executed symbolically
    rebindings: list = field(default_factory=list)
    bounds: str = ""
    outside: str = ""
    twin_every: int = 7  # validate every n-th completed path against the unstubbed code
    twin: bool = True
    abstract_ok: bool = False  # violations that do not replay are "abstract only", not errors
    budget_s: float = 3.0  # per-task slice before leftovers are handed back
    witness: bool = True  # a reachability witness (a path reaching the final assertion) is required


_REGISTRY: dict = {}


def _norm(o):
    """Normal form for comparing symbolic-under-model and concrete results."""
    import fractions

    import numpy as np

    if isinstance(o, Sym):
        raise EncodingError("unevaluated proxy in result")
    if isinstance(o, (bool, np.bool_)):
        return bool(o)
    if isinstance(o, (int, np.integer)):
        return float(o)
    if isinstance(o, fractions.Fraction):
        return float(o)
    if isinstance(o, (float, np.floating)):
        f = float(o)
        return "nan" if f != f else f
    if isinstance(o, dict):
        return {repr(_norm(k)): _norm(v) for k, v in o.items()}
    if isinstance(o, (list, tuple, np.ndarray)):
        return [_norm(v) for v in o]
    return o


def _close(a, b):
    if isinstance(a, float) and isinstance(b, float):
        return a == b or abs(a - b) <= 1e-9 * max(1.0, abs(a), abs(b))
    if isinstance(a, dict) and isinstance(b, dict):
        return a.keys() == b.keys() and all(_close(a[k], b[k]) for k in a)
    if isinstance(a, list) and isinstance(b, list):
        return len(a) == len(b) and all(_close(x, y) for x, y in zip(a, b))
    return a == b


def _model_floats_faithful(model):
    """Real-valued model entries must keep their mutual order/equality once rounded to doubles."""
    import fractions

    vals = [v for v in model.values() if isinstance(v, fractions.Fraction)]
    for i in range(len(vals)):
        for j in range(i + 1, len(vals)):
            a, b = vals[i], vals[j]
            fa, fb = float(a), float(b)
            if (a < b) != (fa < fb) or (a == b) != (fa == fb):
                return False
    return True


def _concrete_run(ob, job, model, purpose="replay"):
    cctx = ConcreteCtx(model, purpose)
    try:
        rec = ob.harness(cctx, **job)
        return "ok", rec
    except Infeasible:
        return "infeasible", None
    except Violation as v:
        return "violation", v


def _task(ob_name, job_idx, prefix, twin_offset):
    """Worker: explore a subtree for a time slice."""
    ob = _REGISTRY[ob_name]
    job = ob.jobs[job_idx]
    out = dict(
        ob=ob_name, job=job_idx, paths=0, infeasible=0, nq=0, tq=0.0, counters={}, samples=[],
        violations=[], leftovers=[], twin=0, twin_skipped=0, errors=[], reached=0,
    )
    stack = [list(prefix)]
    seen_sigs = set()
    t0 = time.perf_counter()
    while stack:
        if out["paths"] + out["infeasible"] > 0 and time.perf_counter() - t0 > ob.budget_s:
            out["leftovers"] = stack
            break
        pfx = stack.pop()
        try:
            ctx, status, payload = run_path(ob.harness, pfx, job)
        except (SolverUnknown, EncodingError) as e:
            out["errors"].append(f"{type(e).__name__}: {e} [job={job} prefix={pfx}]\n" + traceback.format_exc(limit=-6))
            break
        except BaseException as e:  # harness bug or unexpected library error: inconclusive
            out["errors"].append(f"harness error {type(e).__name__}: {e} [job={job} prefix={pfx}]\n" + traceback.format_exc(limit=-8))
            break
        out["nq"] += ctx.nq
        out["tq"] += ctx.tq
        for i in range(len(pfx), len(ctx.trace)):
            d, alt, fp = ctx.trace[i]
            if alt:
                stack.append([(t[0], t[2]) for t in ctx.trace[:i]] + [(not d, fp)])
        if status == "infeasible":
            out["infeasible"] += 1
            continue
        out["paths"] += 1
        if status == "violation":
            v = payload
            rep = dict(kind=v.kind, message=v.message, model=jsonable(v.model), extra=jsonable(v.extra),
                       job=jsonable(job), reproduced=False, concrete=None)
            try:
                st, pl = _concrete_run(ob, job, v.model)
                if st == "violation":
                    rep["reproduced"] = True
                    rep["concrete"] = dict(kind=pl.kind, message=pl.message, extra=jsonable(pl.extra))
                    # the concrete run is authoritative for classification
                    rep["kind"], rep["extra"] = pl.kind, jsonable(pl.extra)
                    if pl.message and pl.message != rep["message"]:
                        rep["message"] = f"{pl.message}  [symbolic path: {rep['message']}]"
                else:
                    rep["concrete"] = dict(status=st)
            except BaseException as e:
                rep["concrete"] = dict(error=f"{type(e).__name__}: {e}", tb=traceback.format_exc(limit=-5))
            rep["raw_model"] = {k: str(val) for k, val in v.model.items()}
            sig = (rep["kind"], json.dumps(rep["extra"], sort_keys=True, default=str), rep["reproduced"])
            if sig not in seen_sigs:  # one witness per distinct signature and task
                seen_sigs.add(sig)
                out["violations"].append(rep)
            out["counters"]["violating_paths"] = out["counters"].get("violating_paths", 0) + 1
            continue
        rec = payload or {}
        out["reached"] += 1 if rec.get("reached", True) else 0
        for k, val in (rec.get("counters") or {}).items():
            out["counters"][k] = out["counters"].get(k, 0) + val
        if len(out["samples"]) < 2 and rec.get("sample") is not None:
            try:
                m = ctx.path_model()
                out["samples"].append(jsonable(dict(job=job, model=m, case=evalm(m, rec["sample"]))))
            except BaseException:
                pass
        # concrete twin: real unstubbed code on a model of this path must agree
        if ob.twin and "result" in rec and (out["paths"] + twin_offset) % ob.twin_every == 0:
            try:
                m = ctx.path_model(distinct=rec.get("twin_distinct"))
                if m is None or not _model_floats_faithful(m):
                    out["twin_skipped"] += 1
                else:
                    expected = _norm(evalm(m, rec["result"]))
                    st, pl = _concrete_run(ob, job, m, "twin")
                    if st == "violation":
                        # The unstubbed real code, run on a solver model of this path, violates a property assertion that the
                        # symbolic path (real arithmetic, rebindings) proved: the concrete run IS the replay of a counterexample
                        # the numeric model abstracts away (float rounding, tolerance tests, dtype effects, real json).  It is
                        # run a second time and reported only if it reproduces.
                        st2, pl2 = _concrete_run(ob, job, m, "replay")
                        if st2 == "violation":
                            out["violations"].append(dict(kind=pl2.kind, message=pl2.message + "  [found on the concrete twin of a symbolic path]", model=jsonable(m), extra=jsonable(pl2.extra),
                                                          job=jsonable(job), reproduced=True, concrete=dict(kind=pl2.kind, message=pl2.message), raw_model={k: str(v) for k, v in m.items()}))
                        else:
                            out["errors"].append(f"twin: concrete run violated ({pl}) once but not when repeated; job={job} model={m}")
                    elif st != "ok":
                        out["errors"].append(f"twin: concrete run status {st}; job={job} model={m}")
                    else:
                        got = _norm(pl.get("result"))
                        if not _close(expected, got):
                            out["errors"].append(f"twin mismatch job={job} model={m}\n symbolic={expected}\n concrete={got}")
                        else:
                            out["twin"] += 1
            except (SolverUnknown, EncodingError) as e:
                out["errors"].append(f"twin {type(e).__name__}: {e}")
            except BaseException as e:
                out["errors"].append(f"twin error {type(e).__name__}: {e} job={job}\n" + traceback.format_exc(limit=-6))
    return out


def load_known_findings():
    p = os.path.join(VERIF, "known_findings.json")
    if not os.path.exists(p):
        return []
    with open(p) as f:
        return json.load(f).get("findings", [])


def _matches(entry, prop, viol):
    if entry.get("property") != prop or entry.get("status", "open") != "open":
        return False
    if entry.get("kind") != viol["kind"]:
        return False
    extra = viol.get("extra") or {}
    return all(extra.get(k) == v for k, v in (entry.get("match") or {}).items())


def run_check(prop, tier, obligations, *, level_text="", assumptions=(), wall_budget_s=None, seed=0, extra_coverage=None,
              post=None):
    """Run all obligations of one property, write evidence, print verdict lines, return exit code."""
    t_start = time.time()
    nproc = int(os.environ.get("VERIF_NPROC", os.cpu_count() or 4))
    if wall_budget_s is None:
        wall_budget_s = int(os.environ.get("VERIF_WALL_BUDGET_S", 0)) or (900 if tier == "quick" else 1800)
    for ob in obligations:
        _REGISTRY[ob.name] = ob
    agg = {
        ob.name: dict(paths=0, infeasible=0, nq=0, tq=0.0, counters={}, samples=[], twin=0, twin_skipped=0,
                      jobs=len(ob.jobs), reached=0, tasks=0)
        for ob in obligations
    }
    violations, errors = [], []
    timed_out = False
    unexplored = 0
    ctxmp = mp.get_context("fork")
    pending = set()
    with cf.ProcessPoolExecutor(max_workers=nproc, mp_context=ctxmp) as ex:
        todo = [(ob.name, j, []) for ob in obligations for j in range(len(ob.jobs))]
        # interleave heavy/light jobs deterministically by seed
        if seed or tier == "thorough":
            import random

            # thorough tier: always interleaved, so that a run that reaches its wall budget has sampled every obligation
            random.Random(seed or 20261003).shuffle(todo)
        todo.reverse()
        ntask = 0

        def submit_some():
            nonlocal ntask
            while todo and len(pending) < nproc * 3:
                name, j, pfx = todo.pop()
                ntask += 1
                pending.add(ex.submit(_task, name, j, pfx, ntask))

        submit_some()
        while pending:
            done, _ = cf.wait(pending, timeout=5, return_when=cf.FIRST_COMPLETED)
            if time.time() - t_start > wall_budget_s:
                timed_out = True
                unexplored = len(todo) + len(pending)
                for f in pending:
                    f.cancel()
                break
            for f in done:
                pending.discard(f)
                try:
                    r = f.result()
                except BaseException as e:
                    errors.append(f"worker crashed: {type(e).__name__}: {e}")
                    continue
                a = agg[r["ob"]]
                a["tasks"] += 1
                for k in ("paths", "infeasible", "nq", "tq", "twin", "twin_skipped", "reached"):
                    a[k] += r[k]
                for k, v in r["counters"].items():
                    a["counters"][k] = a["counters"].get(k, 0) + v
                if len(a["samples"]) < 3:
                    a["samples"].extend(r["samples"][: 3 - len(a["samples"])])
                violations.extend(dict(v, ob=r["ob"]) for v in r["violations"])
                errors.extend(r["errors"])
                for pfx in r["leftovers"]:
                    todo.append((r["ob"], r["job"], pfx))
            if len(errors) > 20 or len(violations) > 5000:
                for f in pending:
                    f.cancel()
                todo.clear()
                break
            submit_some()
        if timed_out or pending:
            # never wait for a stuck worker: a wall-budget overrun is reported as inconclusive
            for proc in list(getattr(ex, "_processes", {}).values()):
                try:
                    proc.kill()
                except Exception:
                    pass
            ex.shutdown(wait=False, cancel_futures=True)
    exhaustive = not timed_out and not errors and not todo

    # ---- optional post-processing hook (e.g. CrossHair/SMT obligations run outside the path engine)
    extra_obl = []
    if post is not None:
        try:
            extra_obl = post(tier) or []
        except BaseException as e:
            errors.append(f"post hook {type(e).__name__}: {e}\n" + traceback.format_exc(limit=-6))
    for eo in extra_obl:
        violations.extend(eo.get("violations", []))
        errors.extend(eo.get("errors", []))

    # ---- vacuity guard
    for ob in obligations:
        a = agg[ob.name]
        if ob.witness and a["reached"] == 0 and not any(v["ob"] == ob.name for v in violations) and not errors and not timed_out:
            errors.append(f"vacuous: obligation {ob.name} never reached its final assertion")

    # ---- classify violations
    known = load_known_findings()
    new_v, known_hits, abstract_only, nonrepro = [], {}, [], []
    seen_sig = set()
    obmap = {ob.name: ob for ob in obligations}
    for v in violations:
        if not v.get("reproduced"):
            ob = obmap.get(v.get("ob"))
            if ob is not None and ob.abstract_ok:
                abstract_only.append(v)
            else:
                nonrepro.append(v)
            continue
        hit = next((e for e in known if _matches(e, prop, v)), None)
        if hit is not None:
            known_hits.setdefault(hit["id"], (hit, v))
            continue
        sig = (v["kind"], json.dumps(v.get("extra"), sort_keys=True, default=str))
        if sig in seen_sig:
            continue
        seen_sig.add(sig)
        new_v.append(v)
    for v in nonrepro[:5]:
        errors.append(
            "counterexample did not reproduce on the unstubbed code (encoding/stub suspect): "
            + json.dumps({k: v.get(k) for k in ("ob", "kind", "message", "job", "raw_model", "concrete")}, default=str)[:1500]
        )

    # ---- output
    EVD = os.environ.get("VERIF_EVIDENCE_DIR") or os.path.join(VERIF, "evidence")
    RPD = os.environ.get("VERIF_REPLAY_DIR") or os.path.join(VERIF, "replays")
    os.makedirs(EVD, exist_ok=True)
    lines = []
    for hid, (hit, v) in sorted(known_hits.items()):
        lines.append(f"KNOWN-FINDING: property={prop} {hit['id']}: {hit['what_fails']}")
    replay_paths = []
    for v in new_v:
        body = dict(property=prop, obligation=v["ob"], kind=v["kind"], message=v["message"], job=v["job"],
                    model=v["model"], raw_model=v.get("raw_model"), extra=v.get("extra"), concrete=v.get("concrete"))
        h = hashlib.sha1(json.dumps(body, sort_keys=True, default=str).encode()).hexdigest()[:12]
        d = os.path.join(RPD, prop)
        os.makedirs(d, exist_ok=True)
        p = os.path.join(d, f"{h}.json")
        with open(p, "w") as f:
            json.dump(body, f, indent=1, default=str)
        replay_paths.append(p)
        lines.append(f"VIOLATION property={prop} replay={p}")
        lines.append(f"  [{v['ob']}] {v['kind']}: {v['message']}")

    tot = lambda k: sum(a[k] for a in agg.values())
    samples = [s for a in agg.values() for s in a["samples"]][:8]
    for eo in extra_obl:
        samples.extend(eo.get("samples", [])[:2])
    if not samples:
        samples = [dict(note="no sample recorded")]
    n_obl = len(obligations) + len(extra_obl)
    discharged = sum(
        1 for ob in obligations
        if not any(v["ob"] == ob.name for v in new_v + nonrepro) and (agg[ob.name]["reached"] > 0 or not ob.witness)
    ) + sum(1 for eo in extra_obl if eo.get("ok"))
    wall = time.time() - t_start
    ev = dict(
        property_id=prop,
        tier=tier,
        seed=int(seed),
        level="model_checking",
        coverage=dict(
            states=int(tot("paths") + sum(eo.get("states", 0) for eo in extra_obl)),
            transitions=int(tot("nq") + sum(eo.get("queries", 0) for eo in extra_obl)),
            traces_validated_against_impl=int(tot("twin") + sum(eo.get("twin", 0) for eo in extra_obl)),
            samples=samples,
            exhaustive=bool(exhaustive),
            wall_budget_reached=bool(timed_out),
            unexplored_work_items=int(unexplored),
            infeasible_paths_pruned=int(tot("infeasible")),
            solver_queries=int(tot("nq")),
            solver_s=round(tot("tq") + sum(eo.get("solver_s", 0.0) for eo in extra_obl), 3),
            twin_skipped_float_unfaithful_model=int(tot("twin_skipped")),
            obligations=n_obl,
            discharged=int(discharged),
            per_obligation={
                ob.name: dict(
                    functions_encoded=ob.encodes, rebindings=ob.rebindings, bounds=ob.bounds, outside_claim=ob.outside,
                    jobs=agg[ob.name]["jobs"], paths=agg[ob.name]["paths"], reached_final_assertion=agg[ob.name]["reached"],
                    pruned=agg[ob.name]["infeasible"], queries=agg[ob.name]["nq"], solver_s=round(agg[ob.name]["tq"], 3),
                    twin_validated=agg[ob.name]["twin"], counters=agg[ob.name]["counters"],
                )
                for ob in obligations
            },
            extra_obligations=[{k: v for k, v in eo.items() if k not in ("violations", "errors", "samples")} for eo in extra_obl],
            known_findings_observed=sorted(known_hits),
            abstract_only_counterexamples=len(abstract_only),
            engine="symx (z3 %s path exploration over real code)" % _z3_version(),
            nproc=nproc,
            **(extra_coverage or {}),
        ),
        assumptions=list(assumptions),
        wall_s=round(wall, 2),
        violations=len(new_v),
    )
    if errors:
        ev["coverage"]["errors"] = [e[:2000] for e in errors[:10]]
    with open(os.path.join(EVD, f"{prop}.json"), "w") as f:
        json.dump(ev, f, indent=1, default=str)

    if os.environ.get("VERIF_DEBUG"):
        import collections

        cnt = collections.Counter()
        exm = {}
        for v in violations:
            key = (v["ob"][:8], v["kind"], v.get("reproduced"), json.dumps(v.get("extra"), sort_keys=True, default=str))
            cnt[key] += 1
            exm.setdefault(key, (v["message"][:300], v["job"], v.get("raw_model"), v.get("concrete")))
        for key, n in sorted(cnt.items()):
            print("DEBUG", n, key, "\n      ", exm[key], file=sys.stderr)
    for ln in lines:
        print(ln)
    status = 0
    if new_v:
        status = 1
    elif errors:
        status = 2
    print(
        f"[{prop}/{tier}] obligations={n_obl} discharged={discharged} paths={tot('paths')} pruned={tot('infeasible')} "
        f"queries={tot('nq')} solver_s={tot('tq'):.1f} twin={tot('twin')} known={len(known_hits)} new_violations={len(new_v)} "
        f"abstract_only={len(abstract_only)} exhaustive={exhaustive} wall={wall:.1f}s exit={status}"
    )
    if timed_out and status == 0:
        # every explored path was decided by the solver; what the wall budget left unexplored is stated, not claimed
        print(f"PARTIAL: wall budget of {wall_budget_s}s reached; {unexplored} work items (subtrees) left unexplored - the property held on everything explored", file=sys.stderr)
    if status == 2:
        print("INCONCLUSIVE:", "timed out" if timed_out else "", file=sys.stderr)
        for e in errors[:6]:
            print("  -", e[:3000], file=sys.stderr)
    return status


def _z3_version():
    try:
        import z3

        return z3.get_version_string()
    except Exception:  # pragma: no cover
        return "?"
