"""symx.fp: IEEE-754 double proxies (z3 FloatingPoint theory, round-nearest-even).

The main engine models frequencies and rates over the reals (DESIGN §3.2, F4: "a frequency is one
float division count/N").  That modelling step is itself an obligation: this module lets the *real*
code that computes those columns run on `SFloat` proxies, so that z3 decides — bit for bit, for every
table within the bound — whether the doubles the code produces are the doubles the definition
`count / N` produces.  A change that is the identity over the reals but not over doubles
(`c0/N + c1/N` instead of `(c0+c1)/N`) is a counterexample here and nowhere in a real-arithmetic model.

Cells are unsigned bit-vectors (exact integers) converted to double; specification values are built
from exact bit-vector sums, the code's values from whatever float operations it performs.
"""
from __future__ import annotations

import struct
import time

import z3

from .core import Ctx, EncodingError, SBool, SolverUnknown, Sym, Violation, _wrap_bool

D = z3.Float64()
RNE = z3.RNE()
BVW = 12  # width of cell bit-vectors (sums of up to 2^12-1 stay exact)
FP_TIMEOUT_MS = 600_000


def _lift_fp(v):
    if isinstance(v, SFloat):
        return v.e
    if isinstance(v, Sym):
        raise EncodingError("mixing real-arithmetic proxies with IEEE proxies")
    if isinstance(v, bool):
        return z3.FPVal(1.0 if v else 0.0, D)
    if isinstance(v, (int, float)):
        if isinstance(v, int) and abs(v) > 2**53:
            raise EncodingError("integer not exactly representable as a double")
        return z3.FPVal(float(v), D)
    try:
        import numpy as _np

        if isinstance(v, _np.generic):
            return _lift_fp(v.item())
    except ImportError:  # pragma: no cover
        pass
    raise EncodingError(f"cannot lift {type(v)} to a double")


def _liftable(o):
    if isinstance(o, (SFloat, int, float)):
        return True
    try:
        import numpy as _np

        return isinstance(o, (_np.number, _np.bool_))
    except ImportError:  # pragma: no cover
        return False


def _wrap(e):
    return SFloat(e)


class SFloat(Sym):
    """A symbolic IEEE double.  `bv` (optional) is the exact unsigned integer it was converted from."""

    __slots__ = ("bv",)

    def __init__(self, e, bv=None):
        Sym.__init__(self, e)
        self.bv = bv

    def _bin(self, o, op, swap=False):
        import numpy as _np

        if isinstance(o, _np.ndarray):  # ndarray (op) proxy: numpy defers to us (__array_ufunc__ = None)
            out = _np.empty(o.size, dtype=object)
            for i, x in enumerate(o.ravel()):
                out[i] = self._bin(x, op, swap)
            return out.reshape(o.shape)
        if isinstance(o, float) and o != o:
            return o
        if not _liftable(o):
            return NotImplemented
        a, b = self.e, _lift_fp(o)
        if swap:
            a, b = b, a
        return _wrap(op(RNE, a, b))

    def __add__(self, o):
        return self._bin(o, z3.fpAdd)

    def __radd__(self, o):
        return self._bin(o, z3.fpAdd, True)

    def __sub__(self, o):
        return self._bin(o, z3.fpSub)

    def __rsub__(self, o):
        return self._bin(o, z3.fpSub, True)

    def __mul__(self, o):
        return self._bin(o, z3.fpMul)

    def __rmul__(self, o):
        return self._bin(o, z3.fpMul, True)

    def __truediv__(self, o):
        return self._bin(o, z3.fpDiv)

    def __rtruediv__(self, o):
        return self._bin(o, z3.fpDiv, True)

    def __neg__(self):
        return _wrap(z3.fpNeg(self.e))

    def __pos__(self):
        return self

    def __abs__(self):
        return _wrap(z3.fpAbs(self.e))

    def _cmp(self, o, op):
        import numpy as _np

        if isinstance(o, _np.ndarray):
            return _np.array([bool(self._cmp(x, op)) for x in o.ravel()], dtype=bool).reshape(o.shape)
        if not _liftable(o):
            return NotImplemented
        return _wrap_bool(op(self.e, _lift_fp(o)))

    def __lt__(self, o):
        return self._cmp(o, z3.fpLT)

    def __le__(self, o):
        return self._cmp(o, z3.fpLEQ)

    def __gt__(self, o):
        return self._cmp(o, z3.fpGT)

    def __ge__(self, o):
        return self._cmp(o, z3.fpGEQ)

    def __eq__(self, o):
        if not _liftable(o):
            return False
        return _wrap_bool(z3.fpEQ(self.e, _lift_fp(o)))

    def __ne__(self, o):
        if not _liftable(o):
            return True
        return _wrap_bool(z3.Not(z3.fpEQ(self.e, _lift_fp(o))))

    def __hash__(self):
        return 0x5F10A7

    def __bool__(self):
        return Ctx.cur.branch(z3.Not(z3.fpIsZero(self.e)))

    def __float__(self):
        raise EncodingError("a symbolic double was passed to a C-level float conversion")

    __int__ = __index__ = __float__

    def __repr__(self):
        return f"<fp {z3.simplify(self.e)}>"


# ------------------------------------------------------------------------------- harness API
def fp_uint(ctx, name, hi):
    """A cell: an unsigned integer in 0..hi (solver-chosen), as a double.  Concrete contexts get the int."""
    if getattr(ctx, "concrete", False):
        v = ctx._get(name)
        return int(v)
    c = z3.BitVec(name, BVW)
    ctx.symbols[name] = c
    ctx.solver.add(z3.ULE(c, hi))
    ctx._model = None
    return SFloat(z3.fpUnsignedToFP(RNE, c, D), bv=c)


def exact_sum(cells):
    """Exact integer sum of cells: an int (concrete) or a bit-vector term."""
    if all(isinstance(c, int) for c in cells):
        return sum(cells)
    tot = z3.BitVecVal(0, BVW)
    for c in cells:
        tot = tot + (c.bv if isinstance(c, SFloat) else z3.BitVecVal(int(c), BVW))
    return tot


def spec_ratio(num_cells, den_cells):
    """The defining value of a share: ONE correctly rounded division of two exact integers."""
    n, d = exact_sum(num_cells), exact_sum(den_cells)
    if isinstance(n, int) and isinstance(d, int):
        return n / d if d else float("nan")
    if isinstance(n, int):
        n = z3.BitVecVal(n, BVW)
    if isinstance(d, int):
        d = z3.BitVecVal(d, BVW)
    return SFloat(z3.fpDiv(RNE, z3.fpUnsignedToFP(RNE, n, D), z3.fpUnsignedToFP(RNE, d, D)))


def assume_positive(ctx, cells):
    s = exact_sum(cells)
    if isinstance(s, int):
        ctx.assume(s > 0)
    else:
        ctx.assume(z3.UGT(s, 0))


def same_double(a, b):
    """Bit-identical numeric value (both NaN counts as the same)."""
    if not isinstance(a, Sym) and not isinstance(b, Sym):
        a, b = float(a), float(b)
        return a == b or (a != a and b != b)
    ea, eb = _lift_fp(a), _lift_fp(b)
    return SBool(z3.Or(z3.fpEQ(ea, eb), z3.And(z3.fpIsNaN(ea), z3.fpIsNaN(eb))))


_TACTIC = None


def _fp_solver():
    global _TACTIC
    if _TACTIC is None:
        _TACTIC = z3.Then("simplify", "fpa2bv", "simplify", "bit-blast", "sat")
    s = _TACTIC.solver()
    s.set("timeout", FP_TIMEOUT_MS)
    return s


def require_fp(ctx, cond, kind, message="", extra=None):
    """Property assertion over doubles: path condition AND NOT cond must be unsat (bit-blasted)."""
    if getattr(ctx, "concrete", False):
        return ctx.require(bool(cond), kind, message, extra)
    if isinstance(cond, SBool):
        cond = cond.e
    if isinstance(cond, bool) or type(cond).__name__ == "bool_":
        return ctx.require(bool(cond), kind, message, extra)
    s = _fp_solver()
    for a in ctx.solver.assertions():
        s.add(a)
    s.add(z3.Not(cond))
    t = time.perf_counter()
    r = s.check()
    ctx.tq += time.perf_counter() - t
    ctx.nq += 1
    if r == z3.unknown:
        raise SolverUnknown(f"z3 (fp tactic) unknown: {s.reason_unknown()}")
    if r == z3.sat:
        raise Violation(kind, message, ctx.extract(s.model()), extra)


def require_ratio(ctx, got, num_cells, den_cells, kind, message="", extra=None):
    """`got` (computed by the code) must be the double  sum(num_cells) / sum(den_cells)  (one division).

    Decomposition: when the code's term is itself a single RNE division X / Y, it suffices (congruence) that
    X and Y are the exact integer sums — two division-free queries, which bit-blast in seconds; any other
    shape is decided by the full query (a divider circuit on both sides: minutes when it holds)."""
    if getattr(ctx, "concrete", False) or not isinstance(got, SFloat):
        return require_fp(ctx, same_double(got, spec_ratio(num_cells, den_cells)), kind, message, extra)
    e = got.e
    if z3.is_app(e) and e.decl().kind() == z3.Z3_OP_FPA_DIV and e.num_args() == 3 and z3.is_fprm(e.arg(0)) \
            and z3.simplify(e.arg(0)).decl().kind() == z3.Z3_OP_FPA_RM_NEAREST_TIES_TO_EVEN:
        n, d = exact_sum(num_cells), exact_sum(den_cells)
        n = z3.BitVecVal(n, BVW) if isinstance(n, int) else n
        d = z3.BitVecVal(d, BVW) if isinstance(d, int) else d
        require_fp(ctx, z3.fpEQ(e.arg(1), z3.fpUnsignedToFP(RNE, n, D)), kind, message + " (numerator is not the exact count)", extra)
        require_fp(ctx, z3.fpEQ(e.arg(2), z3.fpUnsignedToFP(RNE, d, D)), kind, message + " (denominator is not the exact total)", extra)
        return
    return require_fp(ctx, same_double(got, spec_ratio(num_cells, den_cells)), kind, message, extra)


def fp_value(model, term):
    """Python float of an FP term under a model."""
    v = model.eval(z3.fpToIEEEBV(term), model_completion=True)
    return struct.unpack("<d", struct.pack("<Q", v.as_long()))[0]
