"""Rebinding of module globals of the repo (DESIGN §3.4).  The function objects executed are the
real ones from /repo; only names that resolve to numpy C-level ufuncs (which reject object dtype)
are pointed to proxy-aware equivalents while a *symbolic* path runs.  In concrete (twin/replay)
mode nothing is rebound: the unstubbed code runs."""
from __future__ import annotations

import contextlib

import numpy as np

from .core import Sym


def _scalar_or_array(real, sym_value):
    def f(a, *args, **kw):
        if isinstance(a, Sym):
            return sym_value
        if isinstance(a, np.ndarray) and a.dtype == object:
            return np.array([sym_value if isinstance(v, Sym) else bool(real(v)) for v in a.ravel()], dtype=bool).reshape(a.shape)
        if hasattr(a, "dtype") and getattr(a, "dtype", None) == object and hasattr(a, "values"):
            vals = np.array([sym_value if isinstance(v, Sym) else bool(real(v)) for v in a.values], dtype=bool)
            return type(a)(vals, index=a.index) if hasattr(a, "index") else vals
        return real(a, *args, **kw)

    return f


sym_isnan = _scalar_or_array(np.isnan, False)  # R1: symbolic value => not NaN (NaN rows are concrete)
sym_isfinite = _scalar_or_array(np.isfinite, True)  # R1: symbolic value => finite


def sym_digitize(x, bins, right=False):
    """R2: numpy.digitize for increasing bins *is* searchsorted (numpy's own implementation)."""
    return np.searchsorted(bins, x, side="left" if right else "right")


def sym_zeros(shape, dtype=float):
    """R4: object zeros so that add.at can accumulate proxies."""
    z = np.empty(shape, dtype=object)
    z.fill(np.float64(0.0))  # numpy scalar: nan/0 keeps numpy's float semantics (nan), not ZeroDivisionError
    return z


def sym_isclose(a, b, rtol=1e-05, atol=1e-08):
    """R5: exact formula |a-b| <= atol + rtol*|b| (DESIGN F3)."""
    a = list(a)
    b = list(b)
    out = []
    # F3: the compared quantities are rates = quotients of integers with denominators <= D = 64, lying
    # in [0,1]; two distinct rates differ by >= 1/D^2.  When atol + rtol < 1/D^2 the tolerance test is
    # therefore equivalent to exact equality (harnesses refuse totals above D).
    exact = (atol + rtol) < 1.0 / (64 * 64)
    for x, y in zip(a, b):
        xs, ys = isinstance(x, Sym), isinstance(y, Sym)
        if not xs and not ys:
            out.append(bool(np.isclose(x, y, rtol=rtol, atol=atol)))
            continue
        if (not xs and x != x) or (not ys and y != y):  # NaN
            out.append(False)
            continue
        if exact:
            out.append(x == y)
            continue
        d = abs(x - y)
        out.append(d <= atol + rtol * abs(y))
    return out


REBINDINGS = {
    "R1": [
        ("AutoCarver.discretizers.utils.quantitative_discretizers", "isnan", sym_isnan),
        ("AutoCarver.discretizers.utils.base_discretizers", "isnan", sym_isnan),
        ("AutoCarver.discretizers.utils.base_discretizers", "isfinite", sym_isfinite),
        ("AutoCarver.discretizers.utils.serialization", "isfinite", sym_isfinite),
    ],
    "R2": [("AutoCarver.discretizers.utils.quantitative_discretizers", "digitize", sym_digitize)],
    "R4": [("AutoCarver.carvers.binary_carver", "zeros", sym_zeros)],
    "R5": [("AutoCarver.carvers.base_carver", "isclose", sym_isclose)],
}


_MISSING = object()

# The same rebindings keyed by the *identity* of the numpy function, so that they follow the function
# through any import style (`from numpy import isnan`, `from numpy import isnan as _isnan`,
# `import numpy as np; np.isnan`) and into any AutoCarver module: a maintenance change of the import
# style or a function moved to another module must not turn into a harness error.
import math as _math

FUNC_REBINDINGS = {
    "R1": {np.isnan: sym_isnan, np.isfinite: sym_isfinite, _math.isnan: sym_isnan, _math.isfinite: sym_isfinite},
    "R2": {np.digitize: sym_digitize},
    "R4": {np.zeros: sym_zeros},
    "R5": {np.isclose: sym_isclose},
}


class _ModuleView:
    """Stands for `numpy` / `math` imported as a module inside an AutoCarver module: every attribute is the
    real one except the rebound functions."""

    def __init__(self, real, overrides):
        object.__setattr__(self, "_real", real)
        object.__setattr__(self, "_over", overrides)

    def __getattr__(self, name):
        real = object.__getattribute__(self, "_real")
        v = getattr(real, name)
        try:
            return object.__getattribute__(self, "_over").get(v, v)
        except TypeError:  # unhashable attribute
            return v


_LOADED = [False]


def _load_all():
    """Import every AutoCarver submodule once, so that the identity scan sees all of them."""
    if _LOADED[0]:
        return
    import importlib
    import pkgutil

    pkg = importlib.import_module("AutoCarver")
    for info in pkgutil.walk_packages(pkg.__path__, "AutoCarver."):
        try:
            importlib.import_module(info.name)
        except Exception:  # an optional submodule that does not import is not our concern here
            pass
    _LOADED[0] = True


def _identity_items(names):
    import sys

    _load_all()

    table = {}
    for n in names:
        table.update(FUNC_REBINDINGS.get(n, {}))
    if not table:
        return []
    items = []
    for modname, mod in list(sys.modules.items()):
        if mod is None or not (modname == "AutoCarver" or modname.startswith("AutoCarver.")):
            continue
        for attr, val in list(vars(mod).items()):
            if val is np or val is _math:
                items.append((modname, attr, _ModuleView(val, table)))
                continue
            try:
                new = table.get(val)
            except TypeError:
                continue
            if new is not None:
                items.append((modname, attr, new))
    return items


@contextlib.contextmanager
def rebound(ctx, names, extra=(), always=False):
    """Activate rebindings for a symbolic path; no-op for ConcreteCtx, except `extra` items when `always` is set:
    environment models (iteration order of a set = PYTHONHASHSEED, completion order of a pool) are inputs chosen by the
    solver, and a counterexample that depends on them can only be replayed under the same environment."""
    if getattr(ctx, "concrete", False):
        if not always:
            yield
            return
        names = []
    import importlib

    saved = []
    try:
        items = _identity_items(names) + list(extra)
        for modname, attr, new in items:
            mod = importlib.import_module(modname)
            saved.append((mod, attr, mod.__dict__.get(attr, _MISSING)))  # builtins (set) are not module globals
            setattr(mod, attr, new)
        yield
    finally:
        for mod, attr, old in reversed(saved):
            if old is _MISSING:
                delattr(mod, attr)
            else:
                setattr(mod, attr, old)


def selftest_R2():
    """Differential self-test of R2 on concrete arrays (run at start-up by checks using R2)."""
    rng = np.random.default_rng(0)
    for _ in range(200):
        bins = np.unique(rng.integers(0, 10, size=rng.integers(1, 6))).astype(float)
        x = rng.integers(-1, 11, size=rng.integers(0, 8)).astype(float)
        for right in (False, True):
            assert (np.digitize(x, bins, right=right) == sym_digitize(x, bins, right=right)).all()
    return True
