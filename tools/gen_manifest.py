#!/usr/bin/env python3
"""Regenerates MANIFEST.json from the per-property table below and validates it."""
import json
import os
import sys

HERE = os.path.dirname(os.path.dirname(os.path.abspath(__file__)))
sys.path.insert(0, HERE)
from tools.manifest_table import CHECKS, NOT_APPLICABLE, NOTES  # noqa: E402

ENGINE = "symx"
m = {
    "version": 1,
    "setup_cmd": "bin/ensure_env",
    "hooks": {
        "guard": "AUTOCARVER_VERIF",
        "enable": "no source hooks are needed: harnesses rebind module globals of the imported repo modules at run time (DESIGN.md 3.4); the guard variable is reserved and unused",
        "baseline_off_cmd": "cd /repo && /venv/bin/python -m pytest -ra -q -p no:cacheprovider --timeout=900 --continue-on-collection-errors",
        "source_commits": [],
        "add_only": True,
    },
    "engines": [
        {
            "name": "symx",
            "path": "symx/",
            "serves_properties": [c["property_id"] for c in CHECKS],
            "kind_free_text": "own path-exploring symbolic executor on the z3 Python API: z3-backed proxy objects run through the real /repo functions (and the real numpy/pandas underneath), every branch on a symbolic value is decided by the solver, every property is an end-of-path unsat query; counterexamples are replayed on the unstubbed code before being reported",
        },
        {
            "name": "crosshair",
            "path": "crosshair/",
            "serves_properties": [c["property_id"] for c in CHECKS if c.get("crosshair")],
            "kind_free_text": "CrossHair 0.0.110 (z3 sequence theory) for string-domain obligations",
        },
    ],
    "checks": [],
    "notes": NOTES,
    "not_applicable": NOT_APPLICABLE,
}
for c in CHECKS:
    pid = c["property_id"]
    m["checks"].append(
        {
            "property_id": pid,
            "quick_cmd": f"bin/check {pid} --tier quick",
            "thorough_cmd": f"bin/check {pid} --tier thorough",
            "evidence_file": f"evidence/{pid}.json",
            "replay_cmd_template": "bin/replay {path}",
            "engine": ENGINE,
            "level_claimed": {"category": "model_checking", "text": c["text"], "design_ref": c["design_ref"]},
            "level_note": c["note"],
            "technique": c["technique"],
        }
    )
with open(os.path.join(HERE, "MANIFEST.json"), "w") as f:
    json.dump(m, f, indent=1)
try:
    import jsonschema

    jsonschema.validate(m, json.load(open("/root/.vp/MANIFEST.schema.json")))
    print("MANIFEST.json valid;", len(m["checks"]), "checks,", len(NOT_APPLICABLE), "not applicable")
except ImportError:
    print("jsonschema not available; wrote MANIFEST.json unvalidated")
