"""Per-property table from which MANIFEST.json is generated (tools/gen_manifest.py)."""

TECH = "bounded symbolic execution of the real code (symx: z3 path exploration over proxy objects in real numpy/pandas), end-of-path unsat queries, concrete replay"

CHECKS = [
    dict(
        property_id="C13",
        text="Bounded symbolic model checking of the real GroupedList methods: from an arbitrary pre-state satisfying the partition invariant (<=3 groups, <=6 values, symbolic pairwise-distinct members plus sentinels) one real operation with unconstrained symbolic arguments is executed on every feasible path; z3 proves invariant, agreement with a reference model and lookup consistency on each path. One inductive step from any valid state covers histories of any length within the shape bound; constructors and depth-2/3 histories cross-check reachability.",
        design_ref="DESIGN.md 6/C13",
        note="Valid operation = the method's own assertions plus distinctness of new keys; CPython dict/list compare equal-hash keys with ==; no float-NaN members; shapes beyond 6 values are outside the claim.",
        technique=TECH,
    ),
]

ALL = ["C%02d" % i for i in range(1, 20)]
_claimed = {c["property_id"] for c in CHECKS}
_REASONS = {}
NOT_APPLICABLE = [
    dict(property_id=p, reason=_REASONS.get(p, "check not built yet in this round (work in progress; see DESIGN.md build order)"))
    for p in ALL
    if p not in _claimed
]
NOTES = "All checks: exit 0 held within stated bounds, 1 reproducing violation (VIOLATION line), 2 inconclusive (solver unknown, encoding error, budget) - never a verdict. Bounds, functions encoded, rebindings, queries and solver time are in each evidence file."
