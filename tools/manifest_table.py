"""Per-property table from which MANIFEST.json is generated (tools/gen_manifest.py)."""

TECH = "bounded symbolic execution of the real code (symx: z3 path exploration over proxy objects in real numpy/pandas), end-of-path unsat queries, concrete replay"

CHECKS = [
    dict(
        property_id="C13",
        text="Bounded symbolic model checking of the real GroupedList methods: from an arbitrary pre-state satisfying the partition invariant (<=3 groups, <=6 values, symbolic pairwise-distinct members plus sentinels) one real operation with unconstrained symbolic arguments is executed on every feasible path; z3 proves invariant, agreement with a reference model and lookup consistency on each path. One inductive step from any valid state covers histories of any length within the shape bound; constructors and depth-2/3 histories cross-check reachability.",
        design_ref="DESIGN.md 6/C13",
        note="Valid operation = the method's own assertions plus distinctness of new keys; CPython dict/list compare equal-hash keys with ==; no float-NaN members; shapes beyond 6 values are outside the claim. Float NaN (numpy.nan) members; lists derived by copy/sort/sort_by and the caller's dict are checked for aliasing after edits.",
        technique=TECH,
    ),

    dict(
        property_id="C03",
        text="Bounded symbolic model checking of the real transform pipeline and base discretizers: (O3.1) symbolic boundaries b1<...<b(m-1)+inf, every contiguous grouping applied through the real convert_to_labels/group_list/convert_to_values, a real BaseDiscretizer fitted and two symbolic probe rows x1<=x2 transformed: z3 proves on every path that the label is that of the first group whose leader >= x, leaders are group maxima and the float output is monotone; (O3.2) real find_quantiles/fit_feature on symbolic reals: boundaries sorted, observed, +inf last; (O3.3) real OrdinalDiscretizer.fit with solver-chosen counts, symbolic target and symbolic min_freq: groups are contiguous runs of the ranking; (O3.4) real CategoricalDiscretizer/QualitativeDiscretizer.fit with solver-chosen sizes and positives: fitted order is sorted by training target rate, NaN last; (O3.6) complete fits on symbolic columns.",
        design_ref="DESIGN.md 6/C03",
        note="Bounds: m<=4 (quick)/6 (thorough) boundaries; n<=9/12 sorted or <=4/6 unsorted symbolic rows; ordinal m<=4/5 modalities, N<=6/10 rows. Rebindings R1,R2,R3 (DESIGN 3.4). k<=3/4 categories. The user's ranking is supplied as list, numpy array, GroupedList and dict-form GroupedList.",
        technique=TECH,
    ),
    dict(
        property_id="C04",
        text="Bounded symbolic model checking of the real label table and transform kernel: symbolic boundaries, every contiguous grouping, NaN absent/alone/merged, both output dtypes: z3 proves transform output = label of the first group whose upper bound >= value, float labels = group ranks, members carry their group's label, NaN rows per dropna; qualitative features on a solver-chosen frame over a concrete category universe (incl. numeric-valued members). Label-text injectivity (O4.2): z3 finds reals sharing a %.Pe rounding cell, witnesses replayed on the real get_labels and a real BinaryCarver.fit.",
        design_ref="DESIGN.md 6/C04",
        note="O4.2 is witness-based (z3 produces colliding candidates for the documented 4-significant-digit format and adjacent doubles; the real code must separate them). Category text is concrete. m<=4/6 boundaries. O4.4: concrete dtype/magnitude grid (int64/uint64/nullable columns up to 2**60, float32, object) with the mapping compared in exact integer arithmetic.",
        technique=TECH + "; SMT rounding-cell query for label text",
        crosshair=False,
    ),
    dict(
        property_id="C05",
        text="Bounded symbolic model checking of transform on unseen data: quantitative probe rows are unconstrained symbolic reals (inside, outside, on the boundaries), NaN rows, empty and single-row frames: z3 proves every output is a fitted label, no exception on finite values, AssertionError naming the feature on unexpected NaN; qualitative rows are solver-chosen among known members, unseen values and NaN for six fitted configurations (with/without default group).",
        design_ref="DESIGN.md 6/C05",
        note="Qualitative category text is concrete (pandas.replace compares natively): the symbolic variable is which value each row takes. m<=4/6 boundaries, frames <=2/3 rows. O5.5: manually edited objects (update_discretizer sequences) never leak raw values.",
        technique=TECH,
    ),
    dict(
        property_id="C08",
        text="Bounded symbolic model checking of the fit kernels: real find_quantiles/np_find_quantiles/fit_feature on symbolic reals (no internal error, unique strictly increasing leaders, partition invariant), real OrdinalDiscretizer.fit with solver-chosen counts / symbolic target / symbolic min_freq (terminates, well-formed partition).",
        design_ref="DESIGN.md 6/C08",
        note="n<=9/12 rows sorted, <=4/6 unsorted; q in 2..10; ordinal m<=4/5. API tier: complete fits of BinaryCarver, ContinuousCarver, Discretizer, QuantitativeDiscretizer, ContinuousDiscretizer on symbolic columns (attributes coherent, partition well formed, dropped features untouched). O8.8 also re-fits an object whose first fit was refused because of X_dev and compares it with a fresh object.",
        technique=TECH,
    ),
    dict(
        property_id="C09",
        text="Bounded symbolic model checking of the base discretizers' min_freq contract: real OrdinalDiscretizer.fit (every bucket >= min_freq of the rows unless one remains, NaN separate) for symbolic min_freq in (0,0.5]; real find_quantiles (strictly increasing observed boundaries then inf, every value with count >= len/q is a boundary, no bucket free of frequent values above 2.5*len/q rows); real CategoricalDiscretizer.fit (a value is in the default group iff rarer than min_freq, NaN separate); complete QuantitativeDiscretizer/Discretizer fits (every bucket >= min_freq/2 unless one remains).",
        design_ref="DESIGN.md 6/C09",
        note="Quantitative claim is stated through q = round(1/min_freq) in 2..10; frequencies compared as one float division (F3/F4). A fitted bucket that holds no training row counts as a bucket with 0 rows. O9.6: a value holding >= min_freq of the rows is a boundary, for min_freq whose reciprocal is exact / rounds up / rounds down (the last case is the open finding KF-C09-1).",
        technique=TECH,
    ),

    dict(
        property_id="C01",
        text="Bounded symbolic model checking of the carvers' selection logic: the real _get_best_combination (with the real enumeration, grouping, viability, ordering and NaN-placement code) runs on pandas crosstabs whose cells are symbolic; (a) with one unconstrained symbolic measure value per distinct grouped table the solver proves, on every path, that the returned grouping is viable per the property text and that no viable candidate of an independent specification-side enumeration has a strictly larger measure, for ANY association measure incl. ties; that a feature is dropped only when no candidate is viable; that the measured table is exactly the grouped sum; (b) the same with the real chi2-based measures on solver-chosen concrete crosstabs (realisable witnesses); (c) the ContinuousCarver's selection logic on symbolic target values per modality with an abstract Kruskal value; (d) complete BinaryCarver/ContinuousCarver fits on symbolic columns compared with an independent brute-force oracle using the real measures.",
        design_ref="DESIGN.md 6/C01",
        note="k<=3 (quick)/4 (thorough) base modalities + NaN row, selected row totals (concrete, F3), symbolic positives, min_freq_mod concrete or any real in (0,0.5], max_n_mod 2..3, with/without dev crosstab (incl. absent modality, represented as the real _aggregator produces it). Rank agreement under rate ties is judged with a strict and a weak reading (either decision accepted). Counterexamples of the abstract-measure obligation are reported only if they replay with the real measure. Continuous targets at kernel level range over the integer domain -2..2 (exact float means, F3). O1.7: IEEE-double lemma (z3 FloatingPoint, bit-blasted): the frequency a group is judged on is bit-identical to count/N for all two-modality crosstabs with cells <=15/255; refuting tables are confirmed through BinaryCarver.fit.",
        technique=TECH,
    ),
    dict(
        property_id="C02",
        text="Same symbolic exploration of the real selection logic as C01 with the bound assertions of C02: number of groups (NaN group included) <= max_n_mod, every group's train/dev share >= min_freq_mod (one float division, as a user computes it), dev ranking agrees, NaN untouched when dropna=False; plus _printer's frequency/target_rate equal their definitions on symbolic tables and min_freq_mod defaults to min_freq/2 for every real min_freq.",
        design_ref="DESIGN.md 6/C02",
        note="Bounds as C01. The literal statement on transformed frames (label counts after transform) is covered by the API-tier obligations. O2.6: the same IEEE-double lemma as O1.7 (min_freq_mod boundary). O2.7: MulticlassCarver with an explicit min_freq_mod (literal statement on every generated column).",
        technique=TECH,
    ),
    dict(
        property_id="C16",
        text="Bounded symbolic model checking of history() and summary(): on every path of the selection-logic exploration the recorded history holds exactly one viable-flagged combination per search and it is the fitted grouping, earlier ones are flagged non-viable, later ones 'Not checked', in decreasing measure order; summary() of quantitative features (symbolic boundaries, all groupings, NaN placements) has one row per fitted group with NaN in its group; summary() of qualitative features partitions the known string values and agrees with transform.",
        design_ref="DESIGN.md 6/C16",
        note="k<=3/4 modalities for history; m<=4/5 boundaries for summary; qualitative category text concrete. O16.6: summary(feature) for feature names contained in one another; O16.7: summary after manual edits.",
        technique=TECH,
    ),

    dict(
        property_id="C07",
        text="Bounded symbolic model checking of fit/transform coherence: complete real fits of BinaryCarver, ContinuousCarver, Discretizer and QuantitativeDiscretizer on a symbolic quantitative column with a qualitative companion and an untouched column: on every path fit_transform == fit+transform, transforming a reversed/re-indexed frame with a solver-chosen row removed gives the corresponding rows, repeated transforms are identical and leave values_orders/labels_per_values unchanged, index/columns kept, non-feature column and the caller's X, y untouched; the transform kernel is additionally checked with symbolic boundaries and symbolic rows (row purity for any pair of reals).",
        design_ref="DESIGN.md 6/C07",
        note="n=3 (quick)/3-4 (thorough) symbolic rows (+1 NaN row), m<=3/4 boundaries in the kernel; histories of up to three transforms; X_dev/y_dev untouched is asserted in the C11/C12 API harnesses only. O7.4: MulticlassCarver (fit_transform == fit+transform, repeated / reordered / single-row transforms).",
        technique=TECH,
    ),

    dict(
        property_id="C12",
        text="Bounded symbolic model checking of MulticlassCarver against its specification: on every path of complete real fits on a symbolic quantitative column (all weak orderings), for surjective class patterns onto 3 classes with int, str and string-sort-differs labels, optional dev frame and an explicit min_freq_mod, every column f_ci equals BinaryCarver(same parameters).fit(X, 1[y=ci]).transform(X)[f], is present iff that carver keeps f, classes are taken in string-sorted order with the first skipped, raw column unchanged, inputs untouched. Name injectivity (O12.2) is decided by CrossHair on the real append_class and replayed at API level.",
        design_ref="DESIGN.md 6/C12",
        note="n=4 (quick)/4-5 rows, 5/16 class patterns per shape. Two open known findings (KF-C12-1/2: f'{feature}_{class}' is not injective and may equal a raw feature name); CrossHair confirms uniqueness under the recorded exclusion (no '_' in class labels, equal-length feature names, <=4 chars). Transform is also applied to frames that already hold columns named like the generated ones and to an already transformed frame.",
        technique=TECH + "; CrossHair (z3 sequence theory) for column names",
        crosshair=True,
    ),
    dict(
        property_id="C19",
        text="Bounded exploration of malformed inputs on the real classes: each corruption class of the property (NaN in y, wrong class count in 4 variants, y index shifted, non-DataFrame X / non-Series y in 3 variants, missing column in X / X_dev / at transform, feature in two lists, string in a quantitative column, ordinal value absent from the ranking, second fit on same/different data) is injected at a solver-chosen position/variant for 6 classes, before and after a successful fit: AssertionError and nothing else; a fitted object's values_orders, to_json() and transform are unchanged afterwards. sort_by strings: CrossHair proves every string (<=12 chars) other than the implemented measures is refused with AssertionError by the real constructors.",
        design_ref="DESIGN.md 6/C19",
        note="Data values are concrete (a fixed valid 12-row sample); the symbolic variables are kind, position, variant and column of the corruption, and the sort_by string. Corruptions not listed in the property are outside the claim. Includes the second fit of an object whose first fit dropped every feature.",
        technique="solver-chosen fault injection on the real API (symx) + CrossHair on the constructors' sort_by check",
        crosshair=True,
    ),

    dict(
        property_id="C06",
        text="Bounded symbolic model checking of the JSON round trip: (O6.2) the real values_orders dump/rebuild functions on GroupedLists with symbolic numeric leaders (every grouping, NaN merged/alone, inf leader) restore order and content exactly, with json.dumps/loads as a structural contract stub; (O6.1) CrossHair on the real leaf conversion functions for every string <= 10 chars; (O6.3) for the concrete witness of every explored path of complete fits (BinaryCarver, ContinuousCarver, Discretizer) the real json.dumps/loads + load_carver/load_discretizer give the same transform, summary and re-serialisation; (O6.4) a solver-chosen type/magnitude grid (float64/float32/int64, 1e-8..1e12, negative, str/int/float/mixed categories, NaN).",
        design_ref="DESIGN.md 6/C06",
        note="O6.3/O6.4 are witness-based (one concrete model per explored path / grid point), reported under traces_validated_against_impl. Trusted: float(repr(x)) == x and json's str(key) for dict keys. One open known finding KF-C06-1 (category named 'numpy.inf'). O6.4 also holds numeric-valued categories in native numeric columns (numpy scalars before, Python numbers after a reload).",
        technique=TECH + "; CrossHair for string leaves",
        crosshair=True,
    ),
    dict(
        property_id="C10",
        text="Bounded symbolic model checking of feature independence and schedule independence: complete real fits (BinaryCarver, Discretizer[, ContinuousCarver]) of a symbolic quantitative feature alone, together with quantitative/qualitative/numeric-valued companions, with reordered feature lists and DataFrame columns, under every solver-chosen iteration order of set(features) (all hash seeds) and with n_jobs in {2,3} through an in-process pool that pickles arguments/results and returns them in every solver-chosen completion order: values_orders['f'] and transform output are identical on every path; parallel == sequential for all features.",
        design_ref="DESIGN.md 6/C10",
        note="Real OS processes are outside the claim: only the order effects of hashing and scheduling are modelled, under the assumption (true for multiprocessing.Pool) that workers share no memory with the parent. n=3 (quick)/3-4 symbolic rows. Companions include int64- and float32-coded qualitative features (dtype promotion across features). O10.2: MulticlassCarver on feature names 'a' and 'a_2' under every iteration order of set(features).",
        technique=TECH + "; schedules and hash orders as solver-chosen permutations",
    ),
    dict(
        property_id="C11",
        text="Bounded symbolic, relational model checking of invariances: find_quantiles and complete carver fits are run on x and on a second symbolic column x' constrained to be order-isomorphic (covers every strictly increasing map, hence exact a*x+b, a>0): same bucket per row, same kept features, same induced row partition; solver-chosen row permutations with index relabelling (offset, shuffled ints, strings) give the same result; order-preserving renamings of qualitative categories and ordinal rankings (positives per category solver-chosen) give the same result.",
        design_ref="DESIGN.md 6/C11",
        note="n<=4 (quick)/5 rows at kernel level, 3/3-4 at API level; 3-4 categories. Rounding of a*x+b itself is outside the claim. The order-isomorphic second column also ranges over exactly representable images under a large offset / a tiny unit (neighbouring doubles far closer than any tolerance).",
        technique=TECH + "; relational (two-run) path conditions",
    ),
    dict(
        property_id="C17",
        text="Bounded symbolic model checking of update_discretizer: fitted objects built from GroupedLists (quantitative: symbolic boundaries, every initial grouping, NaN absent/alone; qualitative: 4 concrete configurations incl. numeric members and NaN), sequences of up to 2 (quick)/3 solver-chosen edits (group adjacent groups in both directions, any groups for categorical features, NaN into a group, replace by a new name); after every edit the real transform of symbolic / exhaustive probe rows agrees with a reference model of the partition, float labels are group ranks, values_orders, labels_per_values and summary agree; JSON round trip after edits on concrete witnesses.",
        design_ref="DESIGN.md 6/C17",
        note="m<=3/4 boundaries; 'replace' of a quantitative upper bound is not exercised (it would change the interval, not only rename it). Includes grouping NaN on a feature that had no missing value at fit.",
        technique=TECH,
    ),
    dict(
        property_id="C18",
        text="Bounded symbolic model checking of ChainedDiscretizer: real __init__/_prepare_data/fit/transform on 4 hierarchies (1-3 levels, uneven fan-out) with solver-chosen per-leaf counts (0 = never observed), NaN and unknown rows, both unknown_handling policies and min_freq any real in (0,0.5]: every known value remains present exactly once; groups equal the bottom-up accumulation along the hierarchy (own modality iff share >= min_freq, otherwise merged into the ancestor, recursively); unknown values raise or join NaN; transform outputs each value's leader.",
        design_ref="DESIGN.md 6/C18",
        note="N<=6 (quick)/10 rows; hierarchies deeper than 3 levels or wider than 5 leaves and intermediate values appearing as raw data are outside the claim. Includes a numeric-coded hierarchy with an unknown number.",
        technique=TECH,
    ),

    dict(
        property_id="C14",
        text="Bounded symbolic model checking of the selectors: the real select/_select_features/apply_measures/make_measure/apply_filters/thresh_filter/quantitative_filter/qualitative_filter run with one symbolic association value per feature (user-supplied measure through the public API), a symbolic inter-feature correlation matrix (DataFrame subclass whose corr() is symbolic; symmetric symbolic pairwise association for the qualitative filter) and a symbolic thresh_corr: z3 proves on every path that the result is distinct, ordered by decreasing measure, <= n_best, pairwise association <= thresh_corr, and that a feature is left out only for one of the three allowed reasons. Statistics (V, T, H with missing rows removed, Spearman/Pearson filter values) equal an independent scipy recomputation on solver-chosen small samples; lists of several association measures are exercised at API level.",
        design_ref="DESIGN.md 6/C14",
        note="m<=3 (quick)/4 features per type; colsample<1 (random.shuffle) and scipy's own correctness are outside the claim; X, y untouched is asserted on every path. O14.4 places missing values in both arguments of the chi2-based measures (pairwise-complete recomputation).",
        technique=TECH,
    ),
    dict(
        property_id="C15",
        text="Bounded symbolic, relational model checking of selector invariances: RegressionSelector with its default measures is run on symbolic target correlations r_i (scipy's correlation distance stubbed by its contract 1-r, 1+r after negation; Spearman matrix with sign flips) before and after negating a solver-chosen subset of features: the selections must be equal and an exact copy of the target (r=1) must be selected; both selectors are run on real data with the real statistics under a solver-chosen re-encoding (positive rescaling, negation for rank-based measures, category renaming, row permutation, column rotation).",
        design_ref="DESIGN.md 6/C15",
        note="Two open known findings (KF-C15-1 negation changes RegressionSelector's selection; KF-C15-2 exact copy of the target dropped), both confirmed on real data. m<=3/4 features in the relational obligation; the statistics' own invariances (rank statistics under monotone maps) are properties of scipy and are exercised, not proved. Rescaling factors range over powers of two from 2^-40 to 2^40.",
        technique=TECH + "; relational (two-run) path conditions",
    ),
]

ALL = ["C%02d" % i for i in range(1, 20)]
_claimed = {c["property_id"] for c in CHECKS}
_REASONS = {}
NOT_APPLICABLE = [
    dict(property_id=p, reason=_REASONS.get(p, "check not built yet in this round (work in progress; see DESIGN.md build order)"))
    for p in ALL
    if p not in _claimed
]
NOTES = "All checks: exit 0 held within stated bounds, 1 reproducing violation (VIOLATION line), 2 inconclusive (solver unknown, encoding error, budget) - never a verdict. Bounds, functions encoded, rebindings, queries and solver time are in each evidence file."
